//go:build verif

package app

import (
	"github.com/go-kid/ioc/container/factory"
	"github.com/go-kid/ioc/container/support"
	"github.com/go-kid/ioc/zzverif/nd"
)

// Integration graph harness: real App.initiate + App.run (real registries, real factory,
// the nine real post-processors, real tag scanning in goroutines, real resolution by
// type / interface / name / qualifier, real three-level cache) on a component set with
// a cycle (A <-> B), a diamond (D -> A, D -> B; A, B -> C), fan-in through an interface
// slice, a by-name point, a qualified point and an optional point.  Symbolic: which of
// the optional components are registered, which Init fails, registration order.

type vG struct{ ev []string }

type vSvc interface{ Name() string }

type vGA struct {
	g    *vG
	fail bool
	B    *vGB   `wire:""`
	C    *vGC   `wire:""`
	Opt  *vGOpt `wire:",required=false"`
	Self vSvc   `wire:"gA,required=false"`
}

func (a *vGA) Naming() string { return "gA" }
func (a *vGA) Name() string   { return "A" }
func (a *vGA) Init() error {
	a.g.ev = append(a.g.ev, "init:A")
	if a.fail {
		return errV
	}
	return nil
}

type vGB struct {
	g    *vG
	fail bool
	A    *vGA   `wire:""`
	C    *vGC   `wire:""`
	All  []vSvc `wire:""`
	Blue vSvc   `wire:",qualifier=blue"`
	Pick vSvc   `wire:""`
}

func (b *vGB) Naming() string { return "gB" }
func (b *vGB) Name() string   { return "B" }
func (b *vGB) Init() error {
	b.g.ev = append(b.g.ev, "init:B")
	if b.fail {
		return errV
	}
	return nil
}

type vGC struct {
	g    *vG
	fail bool
}

func (c *vGC) Naming() string    { return "gC" }
func (c *vGC) Name() string      { return "C" }
func (c *vGC) Qualifier() string { return "blue" }
func (c *vGC) Init() error {
	c.g.ev = append(c.g.ev, "init:C")
	if c.fail {
		return errV
	}
	return nil
}

type vGD struct {
	g      *vG
	A      vSvc  `wire:"gA"`
	B      *vGB  `wire:""`
	ByName vSvc  `wire:"gC"`
	Tool   vTool `wire:""`
	L1     *vGL1 `wire:""`
}

func (d *vGD) Naming() string { return "zD" }
func (d *vGD) Init() error {
	d.g.ev = append(d.g.ev, "init:D")
	return nil
}

type vGOpt struct{ g *vG }

func (o *vGOpt) Naming() string { return "gOpt" }

type vGLazy struct {
	g *vG
	A *vGA `wire:""`
}

func (l *vGLazy) Naming() string { return "gLazy" }
func (l *vGLazy) LazyInit()      {}
func (l *vGLazy) Init() error {
	l.g.ev = append(l.g.ev, "init:Lazy")
	return nil
}

// an eager user post-processor that is itself a component with an injection point and an Init
type vGProc struct {
	g       *vG
	C       *vGC `wire:""`
	inited  bool
	cAtInit bool
	// answers nil (no substitute) from the before-initialization callback of one component
	nilBefore bool
}

func (p *vGProc) Naming() string { return "gProc" }
func (p *vGProc) Init() error {
	p.inited = true
	p.cAtInit = p.C != nil
	return nil
}
func (p *vGProc) PostProcessBeforeInitialization(c any, n string) (any, error) {
	if p.nilBefore && n == "gA" {
		// "nothing to substitute": the component as it is goes on through its lifecycle
		return nil, nil
	}
	return c, nil
}
func (p *vGProc) PostProcessAfterInitialization(c any, n string) (any, error) { return c, nil }

// a cycle made up of lazy components only, reached from an eager one
type vGL1 struct {
	g  *vG
	L2 *vGL2 `wire:""`
}

func (l *vGL1) Naming() string { return "gL1" }
func (l *vGL1) LazyInit()      {}
func (l *vGL1) Init() error {
	l.g.ev = append(l.g.ev, "init:L1")
	return nil
}

type vGL2 struct {
	g  *vG
	L1 *vGL1 `wire:""`
}

func (l *vGL2) Naming() string { return "gL2" }
func (l *vGL2) LazyInit()      {}
func (l *vGL2) Init() error {
	l.g.ev = append(l.g.ev, "init:L2")
	return nil
}

// a single-valued interface point with a primary winner and a lazy loser that nobody else needs
type vTool interface{ Tool() string }

type vGWinner struct{ g *vG }

func (w *vGWinner) Naming() string { return "gWinner" }
func (w *vGWinner) Tool() string   { return "winner" }
func (w *vGWinner) Primary()       {}

type vGLoser struct {
	g *vG
	D *vGD `wire:""`
}

func (l *vGLoser) Naming() string { return "gLoser" }
func (l *vGLoser) Tool() string   { return "loser" }
func (l *vGLoser) LazyInit()      {}
func (l *vGLoser) Init() error {
	l.g.ev = append(l.g.ev, "init:Loser")
	return nil
}

// stateless (zero-sized) components with an Init: real Go may give all of them one address
type vGZ1 struct{}
type vGZ2 struct{}

var vGZInits [2]int

func (z *vGZ1) Init() error { vGZInits[0]++; return nil }
func (z *vGZ2) Init() error { vGZInits[1]++; return nil }

// the same eager post-processor component, but ordered ahead of the built-in processors
type vGProcEarly struct{ vGProc }

func (p *vGProcEarly) Order() int { return -100 }

type vGRunner struct {
	g *vG
	D *vGD `wire:""`
}

func (r *vGRunner) Naming() string { return "gRunner" }
func (r *vGRunner) Run() error {
	r.g.ev = append(r.g.ev, "run")
	return nil
}

func VerifAppGraph() {
	g := &vG{}
	// FIXED=1: no fault, every optional component present, nothing pre-wired - only the registration
	// rotation (and, in the orders run, the enumeration orders) vary
	fixed := nd.Param("FIXED", 0) == 1
	choose := func(n int) int {
		if fixed {
			return 0
		}
		return nd.Choose(n)
	}
	flag := func(dflt bool) bool {
		if fixed {
			return dflt
		}
		return nd.Bool()
	}
	failing := choose(4) // 0 none, 1 A, 2 B, 3 C
	a := &vGA{g: g, fail: failing == 1}
	b := &vGB{g: g, fail: failing == 2}
	c := &vGC{g: g, fail: failing == 3}
	d := &vGD{g: g}
	opt := &vGOpt{g: g}
	lazy := &vGLazy{g: g}
	run := &vGRunner{g: g}
	withC := flag(true) // C missing: required points of A and B cannot be satisfied
	if withC && flag(false) {
		// the application wired this point by hand, with the registered component, before start-up
		a.C = c
		nd.Cover("a point wired by hand before start-up")
	}
	withOpt := flag(true)
	proc := &vGProc{g: g}
	if flag(false) {
		proc.nilBefore = true
		nd.Cover("a processor answers nil before initialization")
	}
	win, lose := &vGWinner{g: g}, &vGLoser{g: g}
	vGZInits = [2]int{}
	l1, l2 := &vGL1{g: g}, &vGL2{g: g}
	if flag(false) {
		// the application put a built-in default (not a component) into a by-name point before start-up
		d.ByName = &vGC{g: g}
		nd.Cover("a by-name point holding a built-in default before start-up")
	}
	var procComp any = proc
	early := nd.Param("EARLYPROC", 0) == 1
	if early {
		// listed finding class (C09): a user post-processor ordered before the built-in wiring processors
		procComp = &vGProcEarly{vGProc{g: g}}
	}
	comps := []any{a, b, d, lazy, run, procComp, win, lose, &vGZ1{}, &vGZ2{}, l1, l2}
	if withC {
		comps = append(comps, c)
	}
	if withOpt {
		comps = append(comps, opt)
	}
	// registration order: rotate
	rot := nd.Choose(len(comps))
	comps = append(append([]any{}, comps[rot:]...), comps[:rot]...)
	s := &App{Configure: &vICfg{}, registry: support.NewRegistry(), Factory: factory.Default()}
	SetComponents(comps...)(s)
	nd.Assert(s.initiate() == nil, "initiate ok")
	err := s.run()
	count := func(e string) int {
		n := 0
		for _, x := range g.ev {
			if x == e {
				n++
			}
		}
		return n
	}
	at := func(e string) int {
		for i, x := range g.ev {
			if x == e {
				return i
			}
		}
		return -1
	}
	nd.Observe("outcome", err == nil, len(g.ev))
	if !withC {
		nd.Cover("required dependency missing")
		nd.Assert(err != nil, "C09: an unsatisfied required injection point makes run return an error")
		nd.Assert(count("run") == 0, "C09: no application runner is invoked after a failed start-up")
		return
	}
	if failing != 0 {
		nd.Cover("an Init fails")
		nd.Assert(err != nil, "C09: a failing Init makes run return an error")
		nd.Assert(count("run") == 0, "C09: no application runner is invoked after a failed start-up")
		return
	}
	nd.Cover("start ok")
	nd.Assert(err == nil, "C02: a component set with a cycle and a diamond starts")
	// C01: one shared instance, seen identically by every holder and by lookups
	la, e1 := s.GetComponentByName("gA")
	lb, e2 := s.GetComponentByName("gB")
	lc, e3 := s.GetComponentByName("gC")
	nd.Assert(e1 == nil && e2 == nil && e3 == nil, "C01: lookups by name succeed")
	nd.Assert(la == any(a) && lb == any(b) && lc == any(c), "C01: a lookup by name returns the registered instance")
	nd.Assert(a.B == b && b.A == a && d.B == b && lazy.A == nil, "C01: pointer points hold the shared instances (the unneeded lazy component is untouched)")
	nd.Assert(a.C == c && b.C == c, "C01: both holders of a diamond see one instance")
	nd.Assert(d.A == vSvc(a) && d.ByName == vSvc(c), "C07: by-name points receive exactly the named component")
	nd.Assert(a.Self == nil || a.Self == vSvc(a), "C02: a by-name point naming its own holder is never wired to anything else")
	if early {
		pe := procComp.(*vGProcEarly)
		nd.Known("C09/early-ordered-processor-not-wired", true)
		nd.Assert(pe.C == c && pe.inited && pe.cAtInit, "C05: an eager post-processor component is populated before its own Init, whatever its Order")
	} else {
		nd.Assert(proc.C == c && proc.inited && proc.cAtInit, "C05: an eager post-processor component is populated before its own Init, like any other component")
	}
	nd.Assert(b.Blue == vSvc(c), "C08: only the component with the requested qualifier is injected")
	nd.Assert(b.Pick == vSvc(a) || b.Pick == vSvc(c), "C06: a single-valued interface point receives one of the other implementers, never its holder")
	if withOpt {
		nd.Assert(a.Opt == opt, "C06: an optional point with a candidate is populated")
	} else {
		nd.Assert(a.Opt == nil, "C09: an optional point without a candidate stays empty")
	}
	// C06: the interface slice holds every implementer exactly once (A, B's own holder excluded, C)
	seenA, seenC, other := 0, 0, 0
	for _, e := range b.All {
		switch e {
		case vSvc(a):
			seenA++
		case vSvc(c):
			seenC++
		default:
			other++
		}
	}
	nd.Assert(seenA == 1 && seenC == 1 && other == 0, "C06: a slice point receives every implementer exactly once, except its holder")
	// C05: exactly-once initialisation, dependencies first, lazy only if needed
	nd.Assert(count("init:A") == 1 && count("init:B") == 1 && count("init:C") == 1 && count("init:D") == 1, "C05: every eager component is initialised exactly once")
	nd.Assert(count("init:Lazy") == 0, "C05: a lazy component nobody needs is not initialised")
	nd.Assert(d.L1 == l1 && l1.L2 == l2 && l2.L1 == l1, "C02: a cycle of lazy components reached from an eager one is wired")
	nd.Assert(count("init:L1") == 1 && count("init:L2") == 1, "C05: lazy components an eager component needs are initialised exactly once")
	nd.Assert(d.Tool == vTool(win), "C08: the primary candidate wins a single-valued point")
	nd.Assert(count("init:Loser") == 0 && lose.D == nil, "C05: a lazy component that merely lost the selection for a single-valued point is neither populated nor initialised")
	nd.Assert(vGZInits[0] == 1 && vGZInits[1] == 1, "C05: every eager component is initialised exactly once, also stateless ones that may share an address")
	nd.Assert(at("init:C") < at("init:A") && at("init:C") < at("init:B"), "C05: a dependency that does not depend back is initialised first")
	nd.Assert(at("init:A") < at("init:D") && at("init:B") < at("init:D"), "C05: a dependency that does not depend back is initialised first")
	nd.Assert(count("run") == 1 && at("run") == len(g.ev)-1, "C13: the runner runs once, after every eager component is initialised")
}

// ---------------------------------------------------------------------------
// C10: the order in which the dependencies of ONE holder are created must not depend on the
// registries' enumeration order.  x and y refer to each other by name; a plain post-processor
// (no early-reference support) replaces y after its initialization.  Whether start-up succeeds
// depends on which of the two is created first - so that order has to be fixed.
// ---------------------------------------------------------------------------

type vPart interface{ Id() string }

type vOX struct {
	Peer vPart `wire:"oy"`
}

func (x *vOX) Id() string     { return "x" }
func (x *vOX) Naming() string { return "ox" }

type vOY struct {
	Peer vPart `wire:"ox"`
}

func (y *vOY) Id() string     { return "y" }
func (y *vOY) IsY()           {}
func (y *vOY) Naming() string { return "oy" }

type vOYProxy struct{ target *vOY }

func (p *vOYProxy) Id() string { return "y-proxy" }

// sorts first in Refresh, so it is the component that triggers the creation of x and y
type vOHolderSlice struct {
	Parts []vPart `wire:""`
}

func (h *vOHolderSlice) Naming() string { return "a-holder" }

type vOHolderMixed struct {
	P1 vPart `wire:"ox"`
	P2 []any `func:"IsY"`
}

func (h *vOHolderMixed) Naming() string { return "a-holder" }

type vOWrapper struct{}

func (w *vOWrapper) PostProcessBeforeInitialization(c any, name string) (any, error) { return c, nil }
func (w *vOWrapper) PostProcessAfterInitialization(c any, name string) (any, error) {
	if y, ok := c.(*vOY); ok {
		return &vOYProxy{target: y}, nil
	}
	return c, nil
}

func VerifAppOrderCycle() {
	x, y := &vOX{}, &vOY{}
	mixed := nd.Bool()
	var holder any
	hs, hm := &vOHolderSlice{}, &vOHolderMixed{}
	if mixed {
		holder = hm
		nd.Cover("wire and func points in one holder")
	} else {
		holder = hs
		nd.Cover("slice point")
	}
	comps := []any{holder, x, y, &vOWrapper{}}
	rot := nd.Choose(len(comps))
	comps = append(append([]any{}, comps[rot:]...), comps[:rot]...)
	s := &App{Configure: &vICfg{}, registry: support.NewRegistry(), Factory: factory.Default()}
	SetComponents(comps...)(s)
	nd.Assert(s.initiate() == nil, "initiate ok")
	err := s.run()
	nd.Observe("started", err == nil)
	// with x created before y the wrapped y is finished inside x's population and everybody sees the wrapper:
	// that is what name order (the order Refresh itself uses) gives, whatever order the registries enumerate in
	nd.Assert(err == nil, "C10: whether start-up succeeds does not depend on the order in which the registries enumerate the components")
	if err != nil {
		return
	}
	if !mixed {
		nd.Assert(len(hs.Parts) == 2, "C06: a slice point receives every implementer exactly once")
	} else {
		nd.Assert(hm.P1 == vPart(x) && len(hm.P2) == 1, "C06: every point of the holder is populated")
	}
	nd.Assert(x.Peer != nil && x.Peer.Id() == "y-proxy", "C03: every holder sees the version the container finally publishes")
}
