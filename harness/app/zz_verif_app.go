//go:build verif

package app

import (
	"errors"
	"os"
	"time"

	"github.com/go-kid/ioc/configure"
	"github.com/go-kid/ioc/configure/loader"
	"github.com/go-kid/ioc/container"
	"github.com/go-kid/ioc/definition"
	"github.com/go-kid/ioc/zzverif/nd"
)

var errV = errors.New("boom")

// ---------------------------------------------------------------------------
// APP harness: the real App.run / initConfiguration / initFactory / refresh /
// callRunners with a logging stub factory and stub configure.
// ---------------------------------------------------------------------------

type vAppEnv struct {
	log        []int // event codes: -1 config, -2 prepare, -3 refresh-done, >=0 runner id
	failConfig bool
	failPrep   bool
	failRefr   bool
	causeless  bool
}

type vFactory struct {
	container.Factory
	env *vAppEnv
}

func (f *vFactory) PrepareComponents() error {
	f.env.log = append(f.env.log, -2)
	if f.env.failPrep {
		return errV
	}
	return nil
}
func (f *vFactory) Refresh() error {
	if f.env.failRefr {
		return errV
	}
	f.env.log = append(f.env.log, -3)
	return nil
}

type vConfigure struct {
	configure.Configure
	env *vAppEnv
}

func (c *vConfigure) Initialize() error {
	c.env.log = append(c.env.log, -1)
	if c.env.failConfig {
		return errV
	}
	return nil
}

type vRun struct {
	id   int
	o    int
	fail bool
	env  *vAppEnv
}

// an error value with an optional underlying cause that is absent
type vCauseless struct{}

func (e *vCauseless) Error() string { return "failed" }
func (e *vCauseless) Cause() error  { return nil }

func (r *vRun) Run() error {
	r.env.log = append(r.env.log, r.id)
	if r.fail {
		if r.env.causeless {
			return &vCauseless{}
		}
		return errV
	}
	return nil
}

type vRunPrio struct{ vRun }

func (r *vRunPrio) Order() int { return r.o }
func (r *vRunPrio) Priority()  {}

type vRunOrd struct{ vRun }

func (r *vRunOrd) Order() int { return r.o }

type vRunPlain struct{ vRun }

// a runner that carries the Priority marker but no Order(): it is not ordered at all
type vRunMarker struct{ vRun }

func (r *vRunMarker) Priority() {}

// C13 (+ the run() part of C09, + the runner call site of C12)
func VerifC13() {
	n := nd.Param("N", 3)
	env := &vAppEnv{}
	faults := nd.Param("FAULTS", 1)
	if faults > 0 {
		switch nd.Choose(4) {
		case 1:
			env.failConfig = true
		case 2:
			env.failPrep = true
		case 3:
			env.failRefr = true
		}
	}
	failing := nd.Choose(n + 1) // index of the failing runner, n = none
	if failing < n {
		env.causeless = nd.Bool() // the failing runner reports an error value whose Cause() is nil
	}
	class := make([]int, n)
	order := make([]int, n)
	var runners []definition.ApplicationRunner
	for i := 0; i < n; i++ {
		class[i] = nd.Choose(4)
		base := vRun{id: i, fail: i == failing, env: env}
		if class[i] == 3 {
			// marker only: belongs to the unordered group
			class[i] = 2
			runners = append(runners, &vRunMarker{base})
			order[i] = 0
			nd.Cover("runner with a Priority marker but no Order")
			continue
		}
		switch class[i] {
		case 0:
			base.o = int(nd.Int64())
			runners = append(runners, &vRunPrio{base})
		case 1:
			base.o = int(nd.Int64())
			runners = append(runners, &vRunOrd{base})
		default:
			runners = append(runners, &vRunPlain{base})
		}
		order[i] = base.o
	}
	s := &App{Configure: &vConfigure{env: env}, Factory: &vFactory{env: env}, ApplicationRunners: runners}
	err := s.run()
	// which runners ran, in which order
	var ran []int
	refreshedAt := -1
	for k, ev := range env.log {
		if ev == -3 {
			refreshedAt = k
		}
		if ev >= 0 {
			nd.Assert(refreshedAt >= 0, "C13: no runner is invoked before the container finished refreshing")
			ran = append(ran, ev)
		}
	}
	if env.failConfig || env.failPrep || env.failRefr {
		nd.Cover("start-up fault")
		nd.Assert(err != nil, "C09: a failing start-up phase makes run return an error")
		nd.Assert(len(ran) == 0, "C09: no application runner is invoked after a failed start-up")
		return
	}
	count := make([]int, n)
	for _, id := range ran {
		count[id]++
	}
	for i := 0; i < n; i++ {
		nd.Assert(count[i] <= 1, "C13: no runner is invoked twice")
	}
	// the invocation sequence respects the ordering contract
	for k := 1; k < len(ran); k++ {
		a, b := ran[k-1], ran[k]
		nd.Assert(class[a] <= class[b], "C12: runners: priority-ordered before ordered before unordered")
		if class[a] == class[b] && class[a] < 2 {
			nd.Assert(order[a] <= order[b], "C12: runners: Order never decreases inside a group")
		}
	}
	if failing == n {
		nd.Cover("all runners ok")
		nd.Assert(err == nil, "C13: run succeeds when no runner fails")
		nd.Assert(len(ran) == n, "C13: every runner is invoked exactly once")
		return
	}
	nd.Cover("runner failed")
	nd.Assert(err != nil, "C13: a failing runner makes run return an error")
	nd.Assert(len(ran) > 0 && ran[len(ran)-1] == failing, "C13: no later runner is invoked after a failing one")
	// every runner ranked strictly before the failing one did run
	for i := 0; i < n; i++ {
		if class[i] < class[failing] || (class[i] == class[failing] && class[i] < 2 && order[i] < order[failing]) {
			nd.Assert(count[i] == 1, "C13: every runner sequenced before the failing one is invoked")
		}
	}
}

// ---------------------------------------------------------------------------
// C14: Close reaches every closer exactly once and waits for all of them
// ---------------------------------------------------------------------------

type vCloser struct {
	id       int
	fail     bool
	calls    int
	returned bool
}

func (c *vCloser) Close() error {
	c.calls++
	if !nd.Symbolic() && !c.fail {
		time.Sleep(5 * time.Millisecond) // natively: succeeding closers are slow, failing ones return at once
	}
	nd.Slow() // a closer may take arbitrarily long
	c.returned = true
	if c.fail {
		return errV
	}
	return nil
}

// a closer that contains another registered closer as its first field: &pool and
// &pool.Primary are the same address but two different closers
type vPool struct {
	Primary vCloser
	calls   int
	done    bool
}

func (p *vPool) Close() error {
	p.calls++
	nd.Slow()
	p.done = true
	return nil
}

// stateless closers: every zero-sized object may live at one address
type vZC1 struct{}
type vZC2 struct{}

var vZCalls [2]int
var vZDone [2]bool

func (c *vZC1) Close() error { vZCalls[0]++; nd.Slow(); vZDone[0] = true; return nil }
func (c *vZC2) Close() error { vZCalls[1]++; nd.Slow(); vZDone[1] = true; return nil }

func VerifC14() {
	n := nd.Choose(nd.Param("N", 3) + 1)
	var cs []*vCloser
	s := &App{}
	for i := 0; i < n; i++ {
		c := &vCloser{id: i, fail: nd.Bool()}
		cs = append(cs, c)
		s.CloserComponents = append(s.CloserComponents, c)
	}
	// optionally: closers that share an address with another registered closer
	shape := 0
	if n <= 2 { // keeps the number of goroutines (and schedules) bounded
		shape = nd.Choose(nd.Param("SHAPES", 3))
	}
	var pool *vPool
	vZCalls = [2]int{}
	vZDone = [2]bool{}
	switch shape {
	case 1:
		pool = &vPool{}
		s.CloserComponents = append(s.CloserComponents, pool, &pool.Primary)
		nd.Cover("closer embedded in another closer")
	case 2:
		s.CloserComponents = append(s.CloserComponents, &vZC1{}, &vZC2{})
		nd.Cover("stateless closers")
	}
	s.Close()
	defer nd.ReleaseSlow()
	// the instant Close returns:
	for _, c := range cs {
		nd.Assert(c.returned, "C14: Close returns only after every closer's Close has returned")
	}
	if pool != nil {
		nd.Assert(pool.done && pool.Primary.returned, "C14: Close returns only after every closer's Close has returned")
	}
	if shape == 2 {
		nd.Assert(vZDone[0] && vZDone[1], "C14: Close returns only after every closer's Close has returned")
	}
	for _, c := range cs {
		nd.Assert(c.calls == 1, "C14: every closer is invoked exactly once by the time Close returns")
	}
	if pool != nil {
		nd.Assert(pool.calls == 1 && pool.Primary.calls == 1, "C14: every closer is invoked exactly once by the time Close returns")
	}
	if shape == 2 {
		nd.Assert(vZCalls[0] == 1 && vZCalls[1] == 1, "C14: every closer is invoked exactly once by the time Close returns")
	}
	if n > 1 {
		nd.Cover("several closers")
	}
	if n == 0 && shape == 0 {
		nd.Cover("no closer")
	}
}

// ---------------------------------------------------------------------------
// C15: configuration sources: options that add a source never discard earlier ones
// ---------------------------------------------------------------------------

type vBinder struct{ log []string }

func (b *vBinder) SetConfig(c []byte) error { b.log = append(b.log, string(c)); return nil }
func (b *vBinder) Get(path string) any      { return nil }
func (b *vBinder) Set(path string, val any) {}

const vCfgDir = "/tmp/zz_verif_c15_"

// a merely ordered (not priority-ordered) custom loader
type vOrdLoader struct {
	o   int
	doc string
}

func (l *vOrdLoader) Order() int                  { return l.o }
func (l *vOrdLoader) LoadConfig() ([]byte, error) { return []byte(l.doc), nil }

func VerifC15Options() {
	k := nd.Param("K", 2)
	b := &vBinder{}
	c := configure.NewConfigure()
	c.SetBinder(b)
	c.SetLoaders(loader.NewRawLoader([]byte("I"))) // stands for the argument loader present initially
	s := &App{Configure: c}
	expectOther := []string{"I"}
	var expectFiles []string
	expectOrd := ""
	for i := 0; i < k; i++ {
		id := string([]byte{byte('a' + i)})
		switch nd.Choose(6) {
		case 5: // a merely ordered custom loader, whatever its Order value (at most one)
			if expectOrd != "" {
				nd.Assume(false)
			}
			AddConfigLoader(&vOrdLoader{o: int(nd.Int64()), doc: "O" + id})(s)
			expectOrd = "O" + id
			nd.Cover("ordered custom loader added")
		case 0: // config file
			path := vCfgDir + id
			if !nd.Symbolic() {
				os.WriteFile(path, []byte("F:"+path), 0o644)
				defer os.Remove(path)
			}
			SetConfig(path)(s)
			expectFiles = append(expectFiles, "F:"+path)
			nd.Cover("file added")
		case 1: // additional loader(s)
			AddConfigLoader(loader.NewRawLoader([]byte("A" + id)))(s)
			expectOther = append(expectOther, "A"+id)
			nd.Cover("loader added")
		case 2: // replace loaders (by design)
			SetConfigLoader(loader.NewRawLoader([]byte("S" + id)))(s)
			expectOther = []string{"S" + id}
			expectFiles = nil
			expectOrd = ""
		case 3: // a loader with an empty payload is added
			AddConfigLoader(loader.NewRawLoader(nil))(s)
		case 4: // replace by a list in which a file comes after a plain loader
			path := vCfgDir + id
			if !nd.Symbolic() {
				os.WriteFile(path, []byte("F:"+path), 0o644)
				defer os.Remove(path)
			}
			SetConfigLoader(loader.NewRawLoader([]byte("S"+id)), loader.NewFileLoader(path))(s)
			expectOther = []string{"S" + id}
			expectFiles = []string{"F:" + path}
			expectOrd = ""
			nd.Cover("file listed after a plain loader")
		}
	}
	err := s.Configure.Initialize()
	nd.Assert(err == nil, "C15: loading succeeds")
	// every expected document reached the binder exactly once
	var expectOrds []string
	if expectOrd != "" {
		expectOrds = []string{expectOrd}
	}
	for _, e := range append(append(append([]string{}, expectFiles...), expectOther...), expectOrds...) {
		cnt := 0
		for _, l := range b.log {
			if l == e {
				cnt++
			}
		}
		nd.Assert(cnt == 1, "C15: an option that adds a source never discards a source configured earlier")
	}
	nd.Assert(len(b.log) == len(expectFiles)+len(expectOther)+len(expectOrds), "C15: nothing but the configured sources reaches the binder")
	// files (priority-ordered) first, then the others in the order they were added
	for i := 0; i < len(b.log) && i < len(expectFiles); i++ {
		isFile := len(b.log[i]) > 1 && b.log[i][0] == 'F'
		nd.Assert(isFile, "C15: priority-ordered loaders (files) come before the others")
	}
	if len(b.log) == len(expectFiles)+len(expectOther)+len(expectOrds) {
		for i, e := range expectOrds {
			nd.Assert(b.log[len(expectFiles)+i] == e, "C15: a merely ordered loader comes after the priority-ordered ones (files) and before the unordered ones, whatever its Order value")
		}
		for i, e := range expectOther {
			nd.Assert(b.log[len(expectFiles)+len(expectOrds)+i] == e, "C15: the other loaders are applied in the order they were added")
		}
	}
}

// C14 with many closers (a fixed sequential schedule, since the count is the subject): batch or
// pool boundaries must not skip or repeat a closer
func VerifC14Many() {
	sel := nd.Choose(5)
	n := []int{16, 17, 18, 33, 40}[sel]
	var cs []*vCloser
	s := &App{}
	for i := 0; i < n; i++ {
		// the last size has many FAILING closers (every second one): a failure must not cost anything later closers need
		c := &vCloser{id: i, fail: i%5 == 3 || (sel == 4 && i%2 == 1)}
		cs = append(cs, c)
		s.CloserComponents = append(s.CloserComponents, c)
	}
	s.Close()
	defer nd.ReleaseSlow()
	for _, c := range cs {
		nd.Assert(c.returned, "C14: Close returns only after every closer's Close has returned")
	}
	for _, c := range cs {
		nd.Assert(c.calls == 1, "C14: every closer is invoked exactly once by the time Close returns")
	}
	nd.Cover("many closers")
}

// C14: a closer that is slow because it waits for a peer never prevents the peer from being invoked.
// Each closer announces that it was invoked and then waits until its peer was invoked too; closers may
// also carry an Order().
type vPeerCloser struct {
	started chan struct{}
	peer    *vPeerCloser
	calls   int
	done    bool
}

func (c *vPeerCloser) Close() error {
	c.calls++
	close(c.started)
	<-c.peer.started
	c.done = true
	return nil
}

type vPeerCloserOrd struct {
	vPeerCloser
	o int
}

func (c *vPeerCloserOrd) Order() int { return c.o }

func VerifC14Peers() {
	a := &vPeerCloser{started: make(chan struct{})}
	b := &vPeerCloser{started: make(chan struct{})}
	s := &App{}
	var ca, cb definition.CloserComponent = a, b
	if nd.Bool() {
		oa := &vPeerCloserOrd{vPeerCloser: vPeerCloser{started: make(chan struct{})}, o: int(nd.Int64())}
		a, ca = &oa.vPeerCloser, oa
		nd.Cover("ordered closer waiting for a peer")
	}
	if nd.Bool() {
		ob := &vPeerCloserOrd{vPeerCloser: vPeerCloser{started: make(chan struct{})}, o: int(nd.Int64())}
		b, cb = &ob.vPeerCloser, ob
	}
	a.peer, b.peer = b, a
	s.CloserComponents = []definition.CloserComponent{ca, cb}
	s.Close()
	nd.Assert(a.done && b.done, "C14: Close returns only after every closer's Close has returned")
	nd.Assert(a.calls == 1 && b.calls == 1, "C14: every closer is invoked exactly once by the time Close returns")
	nd.Cover("closers waiting for each other")
}
