//go:build verif

package app

import (
	"github.com/go-kid/ioc/configure"
	"github.com/go-kid/ioc/container"
	"github.com/go-kid/ioc/container/factory"
	"github.com/go-kid/ioc/container/support"
	"github.com/go-kid/ioc/zzverif/nd"
)

// Integration harness: the real App.initiate + App.run with the real factory, the real
// registries and the nine real post-processors (parallel scanning phase under a fixed
// sequential schedule); only the configuration is a stub.  Components and runners are
// harness objects whose names sort before and after the App's own component name.

type vILog struct{ ev []string }

type vIComp struct {
	name string
	log  *vILog
	fail bool
}

func (c *vIComp) Naming() string { return c.name }
func (c *vIComp) Init() error {
	c.log.ev = append(c.log.ev, "init:"+c.name)
	if c.fail {
		return errV
	}
	return nil
}

type vIRunner struct {
	name string
	log  *vILog
	Dep  *vIComp `wire:",required=false"`
}

func (r *vIRunner) Naming() string { return r.name }
func (r *vIRunner) Run() error {
	r.log.ev = append(r.log.ev, "run:"+r.name)
	return nil
}

// a runner that is also marked lazy: nothing but the App's runner list refers to it
type vILazyRunner struct {
	name string
	log  *vILog
	fail bool
}

func (r *vILazyRunner) Init() error {
	if r.fail {
		return errV
	}
	return nil
}

func (r *vILazyRunner) Naming() string { return r.name }
func (r *vILazyRunner) LazyInit()      {}
func (r *vILazyRunner) Run() error {
	r.log.ev = append(r.log.ev, "run:"+r.name)
	return nil
}

// a closer that wires the App itself and whose name sorts before the App's: it is still being
// created when the App collects its closers
type vIAppCloser struct {
	A      *App `wire:""`
	closed int
}

func (c *vIAppCloser) Naming() string { return "a-shutdown-hook" }
func (c *vIAppCloser) Close() error   { c.closed++; return nil }

// an eager component that is only a factory post-processor (not a component post-processor): it is
// created and initialised like any other eager component
type vIFactoryPP struct {
	log *vILog
}

func (p *vIFactoryPP) Naming() string                                        { return "a-locator" }
func (p *vIFactoryPP) PostProcessComponentFactory(f container.Factory) error { return nil }
func (p *vIFactoryPP) Init() error {
	p.log.ev = append(p.log.ev, "init:locator")
	return nil
}

// stateless (zero-sized) runners: real Go may give all of them one address
type vIZRun1 struct{}
type vIZRun2 struct{}

var vIZRuns [2]int

func (r *vIZRun1) Run() error { vIZRuns[0]++; return nil }
func (r *vIZRun2) Run() error { vIZRuns[1]++; return nil }

type vICfg struct{ configure.Configure }

func (c *vICfg) Initialize() error        { return nil }
func (c *vICfg) Get(path string) any      { return nil }
func (c *vICfg) Set(path string, val any) {}
func (c *vICfg) SetConfig(b []byte) error { return nil }

func VerifAppIntegration() {
	log := &vILog{}
	// component names around "github.com/go-kid/ioc/app/App": "a..." sorts before, "z..." after
	names := []string{"a1", "z1", "a2", "z2"}
	n := nd.Param("N", 2)
	failing := nd.Choose(n + 1)
	var comps []any
	for i := 0; i < n; i++ {
		comps = append(comps, &vIComp{name: names[i], log: log, fail: i == failing})
	}
	nr := nd.Param("R", 1)
	lazyFails := false
	for i := 0; i < nr; i++ {
		if i == nr-1 && nd.Bool() {
			nd.Cover("lazy runner")
			lr := &vILazyRunner{name: []string{"zr", "ar"}[i], log: log, fail: nd.Bool()}
			lazyFails = lazyFails || lr.fail
			comps = append(comps, lr)
			continue
		}
		comps = append(comps, &vIRunner{name: []string{"zr", "ar"}[i], log: log})
	}
	stateless := nd.Bool()
	vIZRuns = [2]int{}
	if stateless {
		comps = append(comps, &vIZRun1{}, &vIZRun2{})
	}
	var hook *vIAppCloser
	earlyClose := false
	if nd.Bool() {
		hook = &vIAppCloser{}
		comps = append(comps, hook)
		earlyClose = nd.Bool()
	}
	withLocator := nd.Bool()
	if withLocator {
		comps = append(comps, &vIFactoryPP{log: log})
		nd.Cover("eager component that is only a factory post-processor")
	}
	s := &App{Configure: &vICfg{}, registry: support.NewRegistry(), Factory: factory.Default()}
	if earlyClose {
		// a shutdown request that arrives before start-up finds nothing to close
		s.Close()
		nd.Cover("Close called before start-up")
	}
	SetComponents(comps...)(s)
	nd.Assert(s.initiate() == nil, "initiate ok")
	err := s.run()
	if stateless && err == nil {
		nd.Cover("stateless runners")
		nd.Assert(vIZRuns[0] == 1 && vIZRuns[1] == 1, "C13: every registered runner is invoked exactly once")
	}
	inits, runs := 0, 0
	lastInit, firstRun := -1, -1
	for i, e := range log.ev {
		if e[0] == 'i' {
			inits++
			lastInit = i
		} else {
			runs++
			if firstRun < 0 {
				firstRun = i
			}
		}
	}
	if lazyFails {
		nd.Cover("initialization of a lazy runner fails")
		nd.Assert(err != nil, "C09: a failing Init of a component created during start-up makes run return an error, also when only an optional point asks for it")
		nd.Assert(runs == 0, "C09: no application runner is invoked after a failed start-up")
		return
	}
	if failing < n {
		nd.Cover("component init fails")
		nd.Assert(err != nil, "C09: a failing Init makes run return an error")
		nd.Assert(runs == 0, "C09: no application runner is invoked after a failed start-up")
		return
	}
	nd.Cover("start ok")
	nd.Assert(err == nil, "C13: start-up succeeds")
	if hook != nil {
		nd.Cover("closer that wires the App")
		nd.Assert(hook.A == s, "C01: a component that wires the App receives the App")
		s.Close()
		nd.Assert(hook.closed == 1, "C14: App.Close invokes every registered closer exactly once, also one that was still being created when the App collected its closers")
	}
	wantInits := n
	if withLocator {
		wantInits++
	}
	nd.Assert(inits == wantInits, "C05: every eager component is initialised exactly once")
	nd.Assert(runs == nr, "C13: every registered runner is invoked exactly once")
	nd.Assert(firstRun < 0 || lastInit < firstRun, "C13: runners are invoked only after every eagerly created component has finished initialization")
}
