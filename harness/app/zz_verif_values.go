//go:build verif

package app

import (
	"github.com/go-kid/ioc/configure"
	"github.com/go-kid/ioc/container/factory"
	"github.com/go-kid/ioc/container/support"
	"github.com/go-kid/ioc/zzverif/nd"
)

// Integration values harness: configuration binding end to end through the real
// App.initiate + App.run (all nine real processors in their real order, real scanning,
// real populate); only the configuration source is a stub that returns a SYMBOLIC string.

type vVCfg struct {
	configure.Configure
	k string
}

func (c *vVCfg) Initialize() error        { return nil }
func (c *vVCfg) Set(path string, val any) {}
func (c *vVCfg) SetConfig(b []byte) error { return nil }
func (c *vVCfg) Get(path string) any {
	if path == "k" {
		return c.k
	}
	return nil
}

type vVComp struct {
	V string `value:"${k}"`
	P string `prop:"k"`
	X string `prefix:"k"`
	D string `value:"${missing:dflt}"`
	O string `value:"${missing},required=false"`
	E string `value:"#{1+1}"`
	M string `value:"${k},validate=max=3"`
	u string
}

func (c *vVComp) Naming() string { return "vals" }

type vVStrict struct {
	M string `value:"${k},validate=max=2"`
}

func (c *vVStrict) Naming() string { return "strict" }

func VerifAppValues() {
	s0 := nd.StringUpTo(nd.Param("N", 3))
	for i := 0; i < len(s0); i++ {
		nd.Assume(s0[i] >= 'g' && s0[i] <= 'z')
	}
	nd.Assume(len(s0) > 0)
	c := &vVComp{O: "keep", u: "frame"}
	s := &App{Configure: &vVCfg{k: s0}, registry: support.NewRegistry(), Factory: factory.Default()}
	strict := nd.Bool()
	if strict {
		SetComponents(c, &vVStrict{})(s)
	} else {
		SetComponents(c)(s)
	}
	nd.Assert(s.initiate() == nil, "initiate ok")
	err := s.run()
	if strict && len(s0) > 2 {
		nd.Cover("constraint violated")
		nd.Assert(err != nil, "C18: start-up fails when the bound value violates the stated constraint")
		return
	}
	nd.Assert(err == nil, "C18: start-up never fails when no bound value violates a constraint")
	if err != nil {
		return
	}
	nd.Observe("bound", c.V, c.P, c.X, c.D, c.O, c.E)
	nd.Assert(c.X == s0, "C17: binding by prefix gives the field exactly the configured string")
	nd.Assert(c.V == s0 && c.P == s0 && c.M == s0, "C17: value placeholder and prop shorthand bind the same string as the prefix")
	nd.Assert(c.D == "dflt", "C16: an absent key falls back to the default")
	nd.Assert(c.O == "keep", "C09: an optional value that is missing leaves the field untouched")
	nd.Assert(c.E == "2", "C18: the field receives the expression's result")
	nd.Assert(c.u == "frame", "C11: an unexported field is never modified")
	nd.Cover("values bound end to end")
}
