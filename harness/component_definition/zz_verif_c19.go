//go:build verif

package component_definition

import "github.com/go-kid/ioc/zzverif/nd"

// C19 totality: every byte string of length <= N parses without panicking
// (the engine turns every implicit Go panic into a violated obligation).
func VerifC19Total() {
	tag := nd.StringUpTo(nd.Param("N", 4))
	args := make(TagArg)
	v := args.Parse(tag)
	nd.Observe("value", v, len(args))
	// the value part is a prefix of the tag
	nd.Assert(len(v) <= len(tag), "value part no longer than the tag")
	nd.Assert(tag[:len(v)] == v, "value part is a prefix of the tag")
}

// C19 totality through NewProperty / IsRequired.
func VerifC19Required() {
	tag := nd.StringUpTo(nd.Param("N", 4))
	p := NewProperty(nil, PropertyTypeComponent, "wire", tag)
	req := p.IsRequired()
	nd.Observe("required", req)
	nd.Cover("parsed")
}
