//go:build verif

package component_definition

import "github.com/go-kid/ioc/zzverif/nd"

// C19 totality: every byte string of length <= N parses without panicking
// (the engine turns every implicit Go panic into a violated obligation).
func VerifC19Total() {
	tag := nd.StringUpTo(nd.Param("N", 4))
	args := make(TagArg)
	v := args.Parse(tag)
	nd.Observe("value", v, len(args))
	// the value part is a prefix of the tag
	nd.Assert(len(v) <= len(tag), "value part no longer than the tag")
	nd.Assert(tag[:len(v)] == v, "value part is a prefix of the tag")
}

// C19 totality through NewProperty / IsRequired.
func VerifC19Required() {
	tag := nd.StringUpTo(nd.Param("N", 4))
	p := NewProperty(nil, PropertyTypeComponent, "wire", tag)
	req := p.IsRequired()
	nd.Observe("required", req)
	nd.Cover("parsed")
}

func vNoSep(s string, extra string) bool {
	for i := 0; i < len(s); i++ {
		b := s[i]
		if b == ',' || b == '{' || b == '}' || b == '[' || b == ']' || b == '(' || b == ')' {
			return false
		}
		for j := 0; j < len(extra); j++ {
			if b == extra[j] {
				return false
			}
		}
	}
	return true
}

func vEqStrs(a, b []string) bool {
	if len(a) != len(b) {
		return false
	}
	for i := range a {
		if a[i] != b[i] {
			return false
		}
	}
	return true
}

func vUpperFirst(s string) string {
	if len(s) > 0 && s[0] >= 'a' && s[0] <= 'z' {
		return string([]byte{s[0] - 32}) + s[1:]
	}
	return s
}

func vSwapFirstCase(s string) string {
	if len(s) == 0 {
		return s
	}
	c := s[0]
	switch {
	case c >= 'a' && c <= 'z':
		c -= 32
	case c >= 'A' && c <= 'Z':
		c += 32
	}
	return string([]byte{c}) + s[1:]
}

// C19 faithfulness: structured tags  v , name = a1 a2 , name2  against the stated grammar
func VerifC19Faithful() {
	L := nd.Param("L", 1)
	v := nd.StringUpTo(L)
	nd.Assume(vNoSep(v, ""))
	bracketValue := nd.Bool()
	if bracketValue { // a bracketed group in the value part containing the separators
		open, close := "(", ")"
		switch nd.Choose(3) {
		case 1:
			open, close = "[", "]"
		case 2:
			open, close = "{", "}"
		}
		v = v + open + "," + close
	}
	name := nd.StringUpTo(L)
	nd.Assume(len(name) > 0 && vNoSep(name, "= "))
	if name[0] >= 0x80 {
		nd.Cover("argument name starting with a non-ASCII byte")
	}
	a1, a2 := nd.StringUpTo(L), nd.StringUpTo(L)
	nd.Assume(vNoSep(a1, " ") && vNoSep(a2, " "))
	items := []string{a1, a2}
	text := a1 + " " + a2
	if nd.Bool() { // second item is a bracketed group containing both separators
		g := "[" + a2 + " ," + "]"
		items = []string{a1, g}
		text = a1 + " " + g
		nd.Cover("bracketed item")
	}
	name2 := nd.StringUpTo(L)
	nd.Assume(len(name2) > 0 && vNoSep(name2, "= ") && name2[0] < 0x80)
	nd.Assume(formatArgType(ArgType(name)) != formatArgType(ArgType(name2)))
	tag := v + "," + name + "=" + text + "," + name2
	// optionally a further valued argument with fewer items than the first one
	third := nd.Param("THIRD", 1) == 1 && nd.Bool()
	b3 := ""
	if third {
		b3 = nd.StringUpTo(L)
		nd.Assume(len(b3) > 0 && vNoSep(b3, " "))
		nd.Assume(formatArgType(ArgType(name)) != "Zq" && formatArgType(ArgType(name2)) != "Zq")
		tag += ",zq=" + b3
	}
	args := make(TagArg)
	got := args.Parse(tag)
	nd.Assert(got == v, "C19: the text before the first top-level comma is the value")
	vals, ok := args.Find(ArgType(name))
	nd.Assert(ok, "C19: a named argument is found")
	nd.Assert(vEqStrs(vals, items), "C19: an argument's values are its space-separated items; bracketed groups are never split")
	vals2, ok2 := args.Find(ArgType(vSwapFirstCase(name)))
	nd.Assert(ok2 && vEqStrs(vals2, items), "C19: an argument name is matched regardless of the case of its first letter")
	nd.Assert(args.Has(ArgType(name2)), "C19: an argument without '=' is present")
	// the argument is filed under the name that was written (only the case of an ASCII first letter is normalised)
	_, filed := args[ArgType(vUpperFirst(name))]
	nd.Assert(filed, "C19: each segment yields an argument under the name written in the tag")
	if third {
		nd.Cover("several valued arguments")
		vals3, ok3 := args.Find(ArgType("zq"))
		nd.Assert(ok3 && vEqStrs(vals3, []string{b3}), "C19: each segment name=v1 v2 yields its own values")
		nd.Assert(len(args) == 3, "C19: exactly the written arguments are present")
	} else {
		nd.Assert(len(args) == 2, "C19: exactly the written arguments are present")
	}
	if bracketValue {
		nd.Cover("bracketed value")
	}
}

// C19: only an explicit required=false makes a point optional
func VerifC19RequiredFaithful() {
	x := nd.StringUpTo(nd.Param("X", 5))
	nd.Assume(vNoSep(x, " ="))
	nameIdx := nd.Choose(2)
	name := []string{"required", "Required"}[nameIdx]
	extra := nd.Bool()
	tag := "v," + name + "=" + x
	if extra {
		tag = "v," + name + "=zz " + x
	}
	p := NewProperty(nil, PropertyTypeComponent, "wire", tag)
	nd.Assert(p.IsRequired() == (x != "false"), "C19: only an explicit required=false makes a point optional")
	if x == "false" {
		nd.Cover("optional")
	}
	// a tag without a required argument, or with another argument, stays required
	y := nd.StringUpTo(2)
	nd.Assume(vNoSep(y, " ="))
	q := NewProperty(nil, PropertyTypeComponent, "wire", "v,qualifier="+y)
	nd.Assert(q.IsRequired(), "C19: a point without a required argument is required")
	// the arguments parsed from a tag belong to one injection point: relaxing one point
	// programmatically does not touch another point that carries the same tag text
	q2 := NewProperty(nil, PropertyTypeComponent, "wire", "v,qualifier="+y)
	q2.SetArg(ArgRequired, "false")
	q2.AddArg(ArgQualifier, "extra")
	nd.Assert(!q2.IsRequired(), "C19: SetArg(required=false) makes the point optional")
	nd.Assert(q.IsRequired(), "C19: only its own explicit required=false makes a point optional")
	got, _ := q.Args().Find(ArgQualifier)
	nd.Assert(len(got) == 1 && got[0] == y, "C19: an argument's values are exactly the items written in its own tag")
	// the argument set handed out by Args() is the point's own: what a processor changes through it is what IsRequired answers from
	q3 := NewProperty(nil, PropertyTypeComponent, "wire", "v,qualifier="+y)
	q3.Args().Set(ArgRequired, "false")
	nd.Assert(!q3.IsRequired(), "C19: an explicit required=false set through Args() makes the point optional")
	q4 := NewProperty(nil, PropertyTypeComponent, "wire", "v,required=false")
	q4.Args().Set(ArgRequired, "true")
	nd.Assert(q4.IsRequired(), "C19: only an explicit required=false makes a point optional (it was replaced through Args())")
	// only the case of the FIRST letter of an argument name is ignored
	q5 := NewProperty(nil, PropertyTypeComponent, "wire", "v,reQuired=false")
	nd.Assert(q5.IsRequired(), "C19: an argument name that differs from 'required' after its first letter is another argument")
	q6 := NewProperty(nil, PropertyTypeComponent, "wire", "v,timeLayout=a,timelayout=b")
	tl, _ := q6.Args().Find("timeLayout")
	nd.Assert(len(q6.Args()) == 2 && len(tl) == 1 && tl[0] == "a", "C19: argument names that differ after their first letter are different arguments")
	// a name written in two segments (also when only the case of its first letter differs): the argument's
	// values are the items of ONE of its segments, never a blend of both
	q7 := NewProperty(nil, PropertyTypeComponent, "wire", "v,"+name+"="+x+" k,required=zz")
	r7, ok7 := q7.Args().Find(ArgRequired)
	nd.Assert(ok7 && (vEqStrs(r7, []string{"zz"}) || (vEqStrs(r7, []string{x, "k"}) && x != "") || (x == "" && vEqStrs(r7, []string{"", "k"})) || (x == "" && vEqStrs(r7, []string{"k"}))), "C19: an argument's values are the space-separated items of one segment, also when its name is written twice")
	nd.Assert(len(q7.Args()) == 1, "C19: a name written twice is one argument")
}
