//go:build verif

package models

import (
	"fmt"
	"os"
	"regexp"
	"strings"
	"testing"
)

// Model vs. real library: every model is compared with the function it stands for on
// ALL strings up to length 4 over an alphabet containing every byte class the models branch on.

var alphabet = []byte{',', '=', ' ', '\t', '(', ')', '[', ']', '{', '}', '$', '#', ':', 'a', 'A', 'z', '0', '9', '.', '+', '-', '"', '\'', '_', 0xC3, 0x80, 0xC2, 0xA0, 0x85, 0xE2, 0xE3}

func allStrings(max int, f func(s string)) {
	var rec func(prefix []byte, n int)
	rec = func(prefix []byte, n int) {
		f(string(prefix))
		if n == 0 {
			return
		}
		for _, b := range alphabet {
			rec(append(append([]byte{}, prefix...), b), n-1)
		}
	}
	rec(nil, max)
}

func guarded(f func()) (ok bool) {
	defer func() {
		if r := recover(); r != nil {
			if s, isStr := r.(string); isStr && strings.HasPrefix(s, "VERIF-UNMODELLED") {
				ok = false
				return
			}
			panic(r)
		}
	}()
	f()
	return true
}

func TestVerifModels(t *testing.T) {
	n := 0
	reQ := regexp.MustCompile(patQuote)
	reE := regexp.MustCompile(patExpr)
	reN := regexp.MustCompile(patNumber)
	seps := []string{",", "=", " ", "${", "}", "ab", ":"}
	maxLen := 3
	if os.Getenv("VERIF_MODELS_LEN") == "4" {
		maxLen = 4
	}
	allStrings(maxLen, func(s string) {
		for _, sep := range seps {
			if a, b := M_strings_Index(s, sep), strings.Index(s, sep); a != b {
				t.Fatalf("Index(%q,%q) = %d, real %d", s, sep, a, b)
			}
			if a, b := M_strings_LastIndex(s, sep), strings.LastIndex(s, sep); a != b {
				t.Fatalf("LastIndex(%q,%q) = %d, real %d", s, sep, a, b)
			}
			if a, b := M_strings_Count(s, sep), strings.Count(s, sep); a != b {
				t.Fatalf("Count(%q,%q) = %d, real %d", s, sep, a, b)
			}
			if a, b := M_strings_HasPrefix(s, sep), strings.HasPrefix(s, sep); a != b {
				t.Fatalf("HasPrefix(%q,%q)", s, sep)
			}
			if a, b := M_strings_HasSuffix(s, sep), strings.HasSuffix(s, sep); a != b {
				t.Fatalf("HasSuffix(%q,%q)", s, sep)
			}
			if a, b := M_strings_TrimPrefix(s, sep), strings.TrimPrefix(s, sep); a != b {
				t.Fatalf("TrimPrefix(%q,%q)", s, sep)
			}
			if a, b := M_strings_TrimSuffix(s, sep), strings.TrimSuffix(s, sep); a != b {
				t.Fatalf("TrimSuffix(%q,%q)", s, sep)
			}
			if a, b := fmt.Sprint(M_strings_SplitN(s, sep, 2)), fmt.Sprint(strings.SplitN(s, sep, 2)); a != b {
				t.Fatalf("SplitN(%q,%q,2) = %s, real %s", s, sep, a, b)
			}
			if a, b := fmt.Sprintf("%q", M_strings_Split(s, sep)), fmt.Sprintf("%q", strings.Split(s, sep)); a != b {
				t.Fatalf("Split(%q,%q) = %s, real %s", s, sep, a, b)
			}
			if a, b := M_strings_Replace(s, sep, "XY", 1), strings.Replace(s, sep, "XY", 1); a != b {
				t.Fatalf("Replace(%q,%q)", s, sep)
			}
			if a, b := M_strings_ReplaceAll(s, sep, "XY"), strings.ReplaceAll(s, sep, "XY"); a != b {
				t.Fatalf("ReplaceAll(%q,%q)", s, sep)
			}
			if a, b := M_strings_Contains(s, sep), strings.Contains(s, sep); a != b {
				t.Fatalf("Contains(%q,%q)", s, sep)
			}
			n += 12
		}
		if a, b := M_strings_IndexByte(s, ','), strings.IndexByte(s, ','); a != b {
			t.Fatalf("IndexByte(%q)", s)
		}
		var up, lo, ts string
		var fl []string
		if guarded(func() { up = M_strings_ToUpper(s) }) {
			if up != strings.ToUpper(s) {
				t.Fatalf("ToUpper(%q) = %q, real %q", s, up, strings.ToUpper(s))
			}
			n++
		}
		if guarded(func() { lo = M_strings_ToLower(s) }) {
			if lo != strings.ToLower(s) {
				t.Fatalf("ToLower(%q) = %q, real %q", s, lo, strings.ToLower(s))
			}
			n++
		}
		if guarded(func() { ts = M_strings_TrimSpace(s) }) {
			if ts != strings.TrimSpace(s) {
				t.Fatalf("TrimSpace(%q) = %q, real %q", s, ts, strings.TrimSpace(s))
			}
			n++
		}
		if guarded(func() { fl = M_strings_Fields(s) }) {
			if fmt.Sprintf("%q", fl) != fmt.Sprintf("%q", strings.Fields(s)) {
				t.Fatalf("Fields(%q) = %q, real %q", s, fl, strings.Fields(s))
			}
			n++
		}
		for _, o := range []string{"aA", "AA", "a", s} {
			var ef bool
			if guarded(func() { ef = M_strings_EqualFold(s, o) }) {
				if ef != strings.EqualFold(s, o) {
					t.Fatalf("EqualFold(%q,%q)", s, o)
				}
				n++
			}
		}
		if a, b := FindBraced('$', s), reQ.FindString(s); a != b {
			t.Fatalf("FindBraced($,%q) = %q, real %q", s, a, b)
		}
		if a, b := FindBraced('#', s), reE.FindString(s); a != b {
			t.Fatalf("FindBraced(#,%q) = %q, real %q", s, a, b)
		}
		if a, b := MatchNumber(s), reN.MatchString(s); a != b {
			t.Fatalf("MatchNumber(%q) = %v, real %v", s, a, b)
		}
		if a, b := fmt.Sprint(findAllBraced('$', s+"${a}"+s+"${b}", -1)), fmt.Sprint(reQ.FindAllStringIndex(s+"${a}"+s+"${b}", -1)); a != b {
			t.Fatalf("FindAllStringIndex(%q) = %s, real %s", s, a, b)
		}
		// template expansion: s as the replacement text, alone and embedded
		pq := patQuote
		for _, repl := range []string{s, "a" + s + "b", "$" + s, s + "$", "${" + s + "}", "$$" + s} {
			var ra string
			if guarded(func() { ra = M_regexp_Regexp_ReplaceAllString(&pq, "x${k}y${j}", repl) }) {
				if rb := reQ.ReplaceAllString("x${k}y${j}", repl); ra != rb {
					t.Fatalf("ReplaceAllString(repl=%q) = %q, real %q", repl, ra, rb)
				}
				n++
			}
		}
		wrapF := func(m string) string { return "<" + m + s + ">" }
		if a, b := M_regexp_Regexp_ReplaceAllStringFunc(&pq, s+"${a}"+s+"${b}"+s, wrapF), reQ.ReplaceAllStringFunc(s+"${a}"+s+"${b}"+s, wrapF); a != b {
			t.Fatalf("ReplaceAllStringFunc(%q) = %q, real %q", s, a, b)
		}
		if a, b := M_strings_Join([]string{s, "x", s}, ","), strings.Join([]string{s, "x", s}, ","); a != b {
			t.Fatalf("Join(%q)", s)
		}
		n += 5
	})
	// longer placeholder-shaped strings
	for _, s := range []string{"${a}", "x${a:b}y", "${a${b}}", "${{}", "$${a}}", "#{1+${k}}", "${}", "${a}${b}", "a$b{c}", "-12.50", "+7", "1.", ".5", "1.2.3"} {
		if a, b := FindBraced('$', s), reQ.FindString(s); a != b {
			t.Fatalf("FindBraced($,%q) = %q, real %q", s, a, b)
		}
		if a, b := FindBraced('#', s), reE.FindString(s); a != b {
			t.Fatalf("FindBraced(#,%q) = %q, real %q", s, a, b)
		}
		if a, b := MatchNumber(s), reN.MatchString(s); a != b {
			t.Fatalf("MatchNumber(%q)", s)
		}
		n += 3
	}
	fmt.Printf("VERIF-MODELS-COMPARISONS %d\n", n)
}
