//go:build verif

// Package models holds Go-source models of standard-library functions.  The
// engine executes them symbolically in place of the named function when an
// argument is symbolic (M_pkg_Func) or always (M_pkg_Type_Method).  Each model
// is validated against the real function by TestVerifModels (native).
package models

// Unmodelled is intercepted by the engine: the path ends as inconclusive.
func Unmodelled(msg string) { panic("VERIF-UNMODELLED " + msg) }

func M_strings_Index(s, sep string) int {
	n := len(sep)
	if n == 0 {
		return 0
	}
	for i := 0; i+n <= len(s); i++ {
		if s[i:i+n] == sep {
			return i
		}
	}
	return -1
}

func M_strings_IndexByte(s string, c byte) int {
	for i := 0; i < len(s); i++ {
		if s[i] == c {
			return i
		}
	}
	return -1
}

func M_strings_Contains(s, sep string) bool { return M_strings_Index(s, sep) >= 0 }

func M_strings_Count(s, sep string) int {
	n := len(sep)
	if n == 0 {
		Unmodelled("Count: empty separator not modelled")
	}
	c := 0
	for i := 0; i+n <= len(s); {
		if s[i:i+n] == sep {
			c++
			i += n
		} else {
			i++
		}
	}
	return c
}

func M_strings_HasPrefix(s, p string) bool { return len(s) >= len(p) && s[:len(p)] == p }
func M_strings_HasSuffix(s, p string) bool { return len(s) >= len(p) && s[len(s)-len(p):] == p }

func M_strings_TrimPrefix(s, p string) string {
	if M_strings_HasPrefix(s, p) {
		return s[len(p):]
	}
	return s
}

// strings.SplitN for n = 2 or n < 0 and a non-empty separator.
func M_strings_SplitN(s, sep string, n int) []string {
	if sep == "" || n == 0 || n == 1 {
		Unmodelled("SplitN: case not modelled")
	}
	var out []string
	for n < 0 || len(out) < n-1 {
		i := M_strings_Index(s, sep)
		if i < 0 {
			break
		}
		out = append(out, s[:i])
		s = s[i+len(sep):]
	}
	return append(out, s)
}

// strings.Replace for n = 1 and a non-empty old string.
func M_strings_Replace(s, old, new string, n int) string {
	if n != 1 || old == "" {
		Unmodelled("Replace: case not modelled")
	}
	i := M_strings_Index(s, old)
	if i < 0 {
		return s
	}
	return s[:i] + new + s[i+len(old):]
}

func M_strings_Join(a []string, sep string) string {
	r := ""
	for i, s := range a {
		if i > 0 {
			r += sep
		}
		r += s
	}
	return r
}

// ASCII case mapping with the exact behaviour of strings.ToUpper/ToLower on
// strings of length <= 1 whose byte may be >= 0x80 (an invalid UTF-8 byte maps to U+FFFD),
// and on longer pure-ASCII strings (assumed by the harnesses that use them).
func M_strings_ToUpper(s string) string {
	if len(s) == 1 && s[0] >= 0x80 {
		return "�"
	}
	b := make([]byte, len(s))
	for i := 0; i < len(s); i++ {
		c := s[i]
		if c >= 0x80 {
			Unmodelled("ToUpper: non-ASCII byte in a string longer than 1 not modelled")
		}
		if c >= 'a' && c <= 'z' {
			c -= 32
		}
		b[i] = c
	}
	return string(b)
}

func M_strings_ToLower(s string) string {
	if len(s) == 1 && s[0] >= 0x80 {
		return "�"
	}
	b := make([]byte, len(s))
	for i := 0; i < len(s); i++ {
		c := s[i]
		if c >= 0x80 {
			Unmodelled("ToLower: non-ASCII byte in a string longer than 1 not modelled")
		}
		if c >= 'A' && c <= 'Z' {
			c += 32
		}
		b[i] = c
	}
	return string(b)
}

// ---- regexp: the three patterns that occur in go-kid/ioc and strconv2.  The
// receiver is the engine's opaque compiled object: a pointer to the pattern text.

const (
	patQuote  = "\\${[^{}]*}"
	patExpr   = "#{[^{}]*}"
	patNumber = "^(-|\\+)?\\d+(\\.\\d+)?$"
)

// FindBraced: leftmost match of  <lead>\{[^{}]*\}
func FindBraced(lead byte, s string) string {
	for i := 0; i+2 < len(s)+0 && i+1 < len(s); i++ {
		if s[i] != lead || s[i+1] != '{' {
			continue
		}
		j := i + 2
		for j < len(s) && s[j] != '{' && s[j] != '}' {
			j++
		}
		if j < len(s) && s[j] == '}' {
			return s[i : j+1]
		}
	}
	return ""
}

// MatchNumber: ^(-|\+)?\d+(\.\d+)?$
func MatchNumber(s string) bool {
	i := 0
	if i < len(s) && (s[i] == '-' || s[i] == '+') {
		i++
	}
	d := 0
	for i < len(s) && s[i] >= '0' && s[i] <= '9' {
		i++
		d++
	}
	if d == 0 {
		return false
	}
	if i == len(s) {
		return true
	}
	if s[i] != '.' {
		return false
	}
	i++
	d = 0
	for i < len(s) && s[i] >= '0' && s[i] <= '9' {
		i++
		d++
	}
	return d > 0 && i == len(s)
}

func M_regexp_Regexp_FindString(re *string, s string) string {
	switch *re {
	case patQuote:
		return FindBraced('$', s)
	case patExpr:
		return FindBraced('#', s)
	}
	Unmodelled("regexp FindString: pattern not modelled")
	return ""
}

func M_regexp_Regexp_MatchString(re *string, s string) bool {
	switch *re {
	case patQuote:
		return FindBraced('$', s) != ""
	case patExpr:
		return FindBraced('#', s) != ""
	case patNumber:
		return MatchNumber(s)
	}
	Unmodelled("regexp MatchString: pattern not modelled")
	return false
}

func isASCIISpace(b byte) bool {
	return b == ' ' || b == '\t' || b == '\n' || b == '\v' || b == '\f' || b == '\r'
}

const runeError = 0xFFFD

func isCont(b byte) bool { return b >= 0x80 && b <= 0xBF }

// DecodeRune: unicode/utf8.DecodeRuneInString (pure byte logic)
func DecodeRune(s string) (rune, int) {
	if len(s) == 0 {
		return runeError, 0
	}
	b0 := s[0]
	if b0 < 0x80 {
		return rune(b0), 1
	}
	if b0 >= 0xC2 && b0 <= 0xDF {
		if len(s) >= 2 && isCont(s[1]) {
			return rune(b0&0x1F)<<6 | rune(s[1]&0x3F), 2
		}
		return runeError, 1
	}
	if b0 >= 0xE0 && b0 <= 0xEF {
		if len(s) < 3 {
			return runeError, 1
		}
		lo, hi := byte(0x80), byte(0xBF)
		if b0 == 0xE0 {
			lo = 0xA0
		}
		if b0 == 0xED {
			hi = 0x9F
		}
		if s[1] < lo || s[1] > hi || !isCont(s[2]) {
			return runeError, 1
		}
		return rune(b0&0x0F)<<12 | rune(s[1]&0x3F)<<6 | rune(s[2]&0x3F), 3
	}
	if b0 >= 0xF0 && b0 <= 0xF4 {
		if len(s) < 4 {
			return runeError, 1
		}
		lo, hi := byte(0x80), byte(0xBF)
		if b0 == 0xF0 {
			lo = 0x90
		}
		if b0 == 0xF4 {
			hi = 0x8F
		}
		if s[1] < lo || s[1] > hi || !isCont(s[2]) || !isCont(s[3]) {
			return runeError, 1
		}
		return rune(b0&0x07)<<18 | rune(s[1]&0x3F)<<12 | rune(s[2]&0x3F)<<6 | rune(s[3]&0x3F), 4
	}
	return runeError, 1
}

// DecodeLastRune: unicode/utf8.DecodeLastRuneInString
func DecodeLastRune(s string) (rune, int) {
	end := len(s)
	if end == 0 {
		return runeError, 0
	}
	start := end - 1
	if s[start] < 0x80 {
		return rune(s[start]), 1
	}
	lim := end - 4
	if lim < 0 {
		lim = 0
	}
	for start--; start >= lim; start-- {
		if !isCont(s[start]) {
			break
		}
	}
	if start < 0 {
		start = 0
	}
	r, size := DecodeRune(s[start:end])
	if start+size != end {
		return runeError, 1
	}
	return r, size
}

// unicode.IsSpace
func isSpaceRune(r rune) bool {
	if r < 0x80 {
		return isASCIISpace(byte(r))
	}
	return r == 0x85 || r == 0xA0 || r == 0x1680 || (r >= 0x2000 && r <= 0x200a) || r == 0x2028 || r == 0x2029 || r == 0x202f || r == 0x205f || r == 0x3000
}

// strings.TrimSpace, exact (Unicode white space, invalid UTF-8 included)
func M_strings_TrimSpace(s string) string {
	i := 0
	for i < len(s) {
		r, n := DecodeRune(s[i:])
		if !isSpaceRune(r) {
			break
		}
		i += n
	}
	t := s[i:]
	j := len(t)
	for j > 0 {
		r, n := DecodeLastRune(t[:j])
		if !isSpaceRune(r) {
			break
		}
		j -= n
	}
	return t[:j]
}

// strings.Fields, exact
func M_strings_Fields(s string) []string {
	var out []string
	i := 0
	for i < len(s) {
		r, n := DecodeRune(s[i:])
		if isSpaceRune(r) {
			i += n
			continue
		}
		j := i
		for j < len(s) {
			r2, n2 := DecodeRune(s[j:])
			if isSpaceRune(r2) {
				break
			}
			j += n2
		}
		out = append(out, s[i:j])
		i = j
	}
	return out
}

func M_strings_Split(s, sep string) []string { return M_strings_SplitN(s, sep, -1) }

func M_strings_LastIndex(s, sep string) int {
	n := len(sep)
	if n == 0 {
		return len(s)
	}
	for i := len(s) - n; i >= 0; i-- {
		if s[i:i+n] == sep {
			return i
		}
	}
	return -1
}

func M_strings_TrimSuffix(s, p string) string {
	if M_strings_HasSuffix(s, p) {
		return s[:len(s)-len(p)]
	}
	return s
}

// strings.EqualFold on ASCII strings
func M_strings_EqualFold(a, b string) bool {
	if len(a) != len(b) {
		for i := 0; i < len(a); i++ {
			if a[i] >= 0x80 {
				Unmodelled("EqualFold: non-ASCII byte")
			}
		}
		for i := 0; i < len(b); i++ {
			if b[i] >= 0x80 {
				Unmodelled("EqualFold: non-ASCII byte")
			}
		}
		return false
	}
	for i := 0; i < len(a); i++ {
		x, y := a[i], b[i]
		if x >= 0x80 || y >= 0x80 {
			Unmodelled("EqualFold: non-ASCII byte")
		}
		if x >= 'A' && x <= 'Z' {
			x += 32
		}
		if y >= 'A' && y <= 'Z' {
			y += 32
		}
		if x != y {
			return false
		}
	}
	return true
}

func M_strings_ReplaceAll(s, old, new string) string {
	if old == "" {
		Unmodelled("ReplaceAll: empty old string")
	}
	out := ""
	for {
		i := M_strings_Index(s, old)
		if i < 0 {
			return out + s
		}
		out += s[:i] + new
		s = s[i+len(old):]
	}
}

// all non-overlapping leftmost matches of <lead>\{[^{}]*\} as [start,end) pairs
func findAllBraced(lead byte, s string, n int) [][]int {
	var out [][]int
	pos := 0
	for n < 0 || len(out) < n {
		m := FindBraced(lead, s[pos:])
		if m == "" {
			break
		}
		i := M_strings_Index(s[pos:], m) + pos
		out = append(out, []int{i, i + len(m)})
		pos = i + len(m)
	}
	return out
}

func leadOf(re *string) byte {
	switch *re {
	case patQuote:
		return '$'
	case patExpr:
		return '#'
	}
	Unmodelled("regexp: pattern not modelled")
	return 0
}

func M_regexp_Regexp_FindAllStringIndex(re *string, s string, n int) [][]int {
	return findAllBraced(leadOf(re), s, n)
}

func M_regexp_Regexp_FindAllString(re *string, s string, n int) []string {
	var out []string
	for _, m := range findAllBraced(leadOf(re), s, n) {
		out = append(out, s[m[0]:m[1]])
	}
	return out
}

func M_regexp_Regexp_FindStringIndex(re *string, s string) []int {
	m := findAllBraced(leadOf(re), s, 1)
	if len(m) == 0 {
		return nil
	}
	return m[0]
}

// (*Regexp).ReplaceAllStringFunc for the two braced patterns (they never match the empty string)
func M_regexp_Regexp_ReplaceAllStringFunc(re *string, src string, repl func(string) string) string {
	out := ""
	pos := 0
	for _, m := range findAllBraced(leadOf(re), src, -1) {
		out += src[pos:m[0]] + repl(src[m[0]:m[1]])
		pos = m[1]
	}
	return out + src[pos:]
}

func isWordByte(b byte) bool {
	return b == '_' || (b >= '0' && b <= '9') || (b >= 'a' && b <= 'z') || (b >= 'A' && b <= 'Z')
}

// ExpandTemplate: regexp's template expansion for a pattern WITHOUT capture groups: $0 / ${0} is the
// whole match, every other well-formed reference ($name, ${name}, $1 ...) expands to nothing, $$ is a
// dollar sign, a malformed reference keeps its dollar sign.  Names are ASCII here (a non-ASCII byte
// where a name could start or continue is not modelled: unicode letters are name characters too).
func ExpandTemplate(template, match string) string {
	out := ""
	for len(template) > 0 {
		i := M_strings_IndexByte(template, '$')
		if i < 0 {
			break
		}
		out += template[:i]
		template = template[i+1:]
		if template != "" && template[0] == '$' {
			out += "$"
			template = template[1:]
			continue
		}
		// extract
		str := template
		ok := false
		name := ""
		rest := ""
		if str != "" {
			brace := false
			if str[0] == '{' {
				brace = true
				str = str[1:]
			}
			j := 0
			for j < len(str) {
				if str[j] >= 0x80 {
					Unmodelled("regexp template: non-ASCII byte in a reference name")
				}
				if !isWordByte(str[j]) {
					break
				}
				j++
			}
			if j > 0 {
				name = str[:j]
				ok = true
				if brace {
					if j >= len(str) || str[j] != '}' {
						ok = false
					} else {
						j++
					}
				}
				if ok {
					rest = str[j:]
				}
			}
		}
		if !ok {
			out += "$"
			continue
		}
		template = rest
		if name == "0" {
			out += match
		}
	}
	return out + template
}

// (*Regexp).ReplaceAllString for the two braced patterns (no capture groups)
func M_regexp_Regexp_ReplaceAllString(re *string, src, repl string) string {
	out := ""
	pos := 0
	for _, m := range findAllBraced(leadOf(re), src, -1) {
		out += src[pos:m[0]]
		if M_strings_IndexByte(repl, '$') >= 0 {
			out += ExpandTemplate(repl, src[m[0]:m[1]])
		} else {
			out += repl
		}
		pos = m[1]
	}
	return out + src[pos:]
}
