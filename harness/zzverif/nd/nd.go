//go:build verif

// Package nd is the harness interface of the symbolic executor.  The engine
// intercepts every function here by name; the native bodies replay a trace
// (a solver model), so a counterexample is an ordinary native test input.
package nd

import (
	"fmt"
	"os"
	"strconv"
	"strings"
	"sync"
	"time"
)

var (
	Trace  []int64
	pos    int
	Params = map[string]int{}
	obsOut *os.File
)

// LoadEnv reads VERIF_TRACE ("1,2,3"), VERIF_PARAMS ("N=3,K=2") and VERIF_OBS (file).
func LoadEnv() {
	Trace, pos = nil, 0
	if s := os.Getenv("VERIF_TRACE"); s != "" {
		for _, f := range strings.Split(s, ",") {
			v, err := strconv.ParseInt(strings.TrimSpace(f), 10, 64)
			if err != nil {
				panic("bad VERIF_TRACE: " + err.Error())
			}
			Trace = append(Trace, v)
		}
	}
	if s := os.Getenv("VERIF_PARAMS"); s != "" {
		for _, kv := range strings.Split(s, ",") {
			p := strings.SplitN(kv, "=", 2)
			v, _ := strconv.Atoi(p[1])
			Params[p[0]] = v
		}
	}
	if s := os.Getenv("VERIF_OBS"); s != "" {
		obsOut, _ = os.Create(s)
	}
}

func next() int64 {
	if pos >= len(Trace) {
		panic("VERIF-TRACE-EXHAUSTED")
	}
	v := Trace[pos]
	pos++
	return v
}

func Bool() bool     { return next() != 0 }
func Byte() byte     { return byte(next()) }
func Int64() int64   { return next() }
func IntN(n int) int { return int(next()) }

// Choose forks over 0..n-1 (one path per value).
func Choose(n int) int { return int(next()) }

func Bytes(n int) string {
	b := make([]byte, n)
	for i := range b {
		b[i] = byte(next())
	}
	return string(b)
}

// StringUpTo: a string of every length 0..n (fork), every byte symbolic.
func StringUpTo(n int) string {
	l := int(next())
	return Bytes(l)
}

func Perm(n int) []int {
	p := make([]int, n)
	for i := range p {
		p[i] = int(next())
	}
	return p
}

func Param(name string, def int) int {
	if v, ok := Params[name]; ok {
		return v
	}
	return def
}

func Assume(c bool) {
	if !c {
		panic("VERIF-ASSUME-FAILED")
	}
}

func Assert(c bool, label string) {
	if !c {
		fmt.Println("VERIF-ASSERT-FAILED " + label)
		panic("VERIF-ASSERT-FAILED " + label)
	}
}

func Cover(label string) {}

// Known declares a finding class; natively it only evaluates the condition.
func Known(key string, c bool) bool { return c && knownListed(key) }

func knownListed(key string) bool {
	for _, k := range strings.Split(os.Getenv("VERIF_KNOWN"), ",") {
		if k == key {
			return true
		}
	}
	return false
}

func Observe(label string, v ...any) {
	if obsOut != nil {
		parts := []string{label}
		for _, a := range v {
			switch t := a.(type) {
			case string:
				parts = append(parts, fmt.Sprintf("%q", t))
			case nil:
				parts = append(parts, "<nil>")
			default:
				parts = append(parts, fmt.Sprint(t))
			}
		}
		fmt.Fprintln(obsOut, strings.Join(parts, " "))
	}
}

// Catch runs f and reports whether a panic escaped it.
func Catch(f func()) (panicked bool) {
	defer func() {
		if r := recover(); r != nil {
			if s, ok := r.(string); ok && strings.HasPrefix(s, "VERIF-") {
				panic(r)
			}
			panicked = true
		}
	}()
	f()
	return false
}

// Gate is a scheduling point of the interleaving discipline (no-op natively).
func Gate() {}

var (
	slowOnce    sync.Once
	slowRelease = make(chan struct{})
)

// Slow marks a point where a callback may take arbitrarily long.  Under the engine it is a
// scheduling point.  Natively it returns at once, except when replaying a path on which the engine
// let a timer fire while this goroutine was still busy (VERIF_SLOW): then it blocks until the
// harness calls ReleaseSlow (at most 12s).
func Slow() {
	if os.Getenv("VERIF_SLOW") == "" {
		return
	}
	select {
	case <-slowRelease:
	case <-time.After(12 * time.Second):
	}
}

// ReleaseSlow lets every goroutine parked in Slow continue.
func ReleaseSlow() { slowOnce.Do(func() { close(slowRelease) }) }

// Symbolic reports whether the harness runs under the symbolic executor.
func Symbolic() bool { return false }

// Concretize fixes one representative value for s on this path (natively: identity).
func Concretize(s string) string { return s }

// PermuteRange switches symbolic permutation of map / sync.Map iteration order on or off
// (natively a no-op: the Go runtime randomises it).
func PermuteRange(on bool) {}

var (
	barMu      sync.Mutex
	barArrived = map[int]int{}
)

// Barrier(id, n): under the engine a scheduling point; natively the caller waits (at most
// 100ms) until n goroutines have arrived at barrier id - this realises the interleaving
// "all parties are inside their callbacks at the same time" deterministically.
func Barrier(id, n int) {
	barMu.Lock()
	barArrived[id]++
	barMu.Unlock()
	deadline := time.Now().Add(300 * time.Millisecond)
	for time.Now().Before(deadline) {
		barMu.Lock()
		a := barArrived[id]
		barMu.Unlock()
		if a >= n {
			return
		}
		time.Sleep(200 * time.Microsecond)
	}
}
