//go:build verif

// Package model: one of two packages with the same last path element and a type of the same
// name (their printed type names coincide: model.Svc).
package model

type Svc struct{ X int }
