//go:build verif

package configure

import (
	"errors"

	"github.com/go-kid/ioc/zzverif/nd"
)

// CFG harness: the real configure.AddLoaders/SetLoaders/Initialize/loadConfigure
// (and through it SortOrderedComponents[Loader]) with a recording binder.

type vBinder struct {
	log  []int
	raw  []byte
	fail int // index of the SetConfig call that fails, -1 = none
	n    int
}

func (b *vBinder) SetConfig(c []byte) error {
	b.n++
	if b.n-1 == b.fail {
		return errV
	}
	b.log = append(b.log, b.n-1)
	b.raw = append(b.raw, c[0])
	return nil
}
func (b *vBinder) Get(path string) any      { return nil }
func (b *vBinder) Set(path string, val any) {}

var errV = errors.New("boom")

type vLoad struct {
	id    int
	o     int
	empty bool
	fail  bool
	doc   byte // content of the document (two loaders may deliver identical documents)
	calls *[]int
}

func (l *vLoad) LoadConfig() ([]byte, error) {
	*l.calls = append(*l.calls, l.id)
	if l.fail {
		return nil, errV
	}
	if l.empty {
		return nil, nil
	}
	return []byte{l.doc}, nil
}

type vLoadPrio struct{ vLoad }

func (l *vLoadPrio) Order() int { return l.o }
func (l *vLoadPrio) Priority()  {}

type vLoadOrd struct{ vLoad }

func (l *vLoadOrd) Order() int { return l.o }

type vLoadPlain struct{ vLoad }

func VerifC15Load() {
	n := nd.Param("N", 3)
	b := &vBinder{fail: -1}
	c := NewConfigure()
	c.SetBinder(b)
	var calls []int
	class := make([]int, n)
	order := make([]int, n)
	empty := make([]bool, n)
	failing := nd.Choose(n + 1) // which loader fails, n = none
	var all []Loader
	var docs []byte
	for i := 0; i < n; i++ {
		class[i] = nd.Choose(3)
		empty[i] = nd.Bool()
		base := vLoad{id: i, empty: empty[i], fail: i == failing, doc: nd.Byte(), calls: &calls}
		docs = append(docs, base.doc)
		var l Loader
		switch class[i] {
		case 0:
			base.o = int(nd.Int64())
			l = &vLoadPrio{base}
		case 1:
			base.o = int(nd.Int64())
			l = &vLoadOrd{base}
		default:
			l = &vLoadPlain{base}
		}
		order[i] = base.o
		all = append(all, l)
	}
	savedAll := append([]Loader{}, all...)
	// the loaders are installed one by one, all at once, or half and half
	switch nd.Choose(4) {
	case 3:
		// the caller builds two configurations from one base list: what it adds to the second one is the
		// second one's business only
		c.SetLoaders(all[:n/2]...)
		c.AddLoaders(all[n/2:]...)
		c2 := NewConfigure()
		c2.SetBinder(&vBinder{fail: -1})
		c2.SetLoaders(all[:n/2]...)
		var calls2 []int
		c2.AddLoaders(&vLoadPlain{vLoad{id: n, doc: 'q', calls: &calls2}})
		nd.Cover("two configurations built from one base list")
	case 0:
		for _, l := range all {
			c.AddLoaders(l)
		}
	case 1:
		c.SetLoaders(all...)
		nd.Cover("installed with SetLoaders")
	default:
		c.SetLoaders(all[:n/2]...)
		c.AddLoaders(all[n/2:]...)
	}
	err := c.Initialize()
	// the caller's own list of sources may be reordered, but no source in it is lost or duplicated
	// (the same list may be used for another application)
	for _, l := range savedAll {
		cnt := 0
		for _, q := range all {
			if q == l {
				cnt++
			}
		}
		nd.Assert(cnt == 1, "C15: loading never discards or duplicates a source in the caller's own list")
	}
	// the loaders are consulted in the ordering contract's sequence
	for k := 1; k < len(calls); k++ {
		a, d := calls[k-1], calls[k]
		nd.Assert(class[a] <= class[d], "C12: loaders: priority-ordered before ordered before unordered")
		if class[a] == class[d] && class[a] < 2 {
			nd.Assert(order[a] <= order[d], "C12: loaders: Order never decreases inside a group")
		}
		if class[a] == 2 && class[d] == 2 {
			nd.Assert(a < d, "C15: unordered loaders are applied in the order they were added")
		}
	}
	if failing < n {
		nd.Cover("loader failed")
		nd.Assert(err != nil, "C09: a failing loader makes Initialize return an error")
		return
	}
	nd.Assert(err == nil, "C15: loading succeeds")
	nd.Assert(len(calls) == n, "C15: every loader is consulted exactly once")
	seen := make([]int, n)
	for _, id := range calls {
		seen[id]++
	}
	for i := 0; i < n; i++ {
		nd.Assert(seen[i] == 1, "C15: every loader is consulted exactly once")
	}
	// every non-empty document reaches the binder exactly once, in consultation order
	var want []int
	for _, id := range calls {
		if !empty[id] {
			want = append(want, id)
		}
	}
	nd.Assert(len(b.log) == len(want), "C15: every non-empty document reaches the binder exactly once")
	if len(b.log) == len(want) {
		for i := range want {
			nd.Assert(b.raw[i] == docs[want[i]], "C15: documents reach the binder in loader order, each one unchanged - also when another source delivered the same bytes")
		}
	}
	// a second initialisation after more loaders were added consults ALL loaders again in contract order
	if nd.Param("REINIT", 1) == 1 && n >= 2 {
		extraClass := nd.Choose(3)
		ebase := vLoad{id: n, doc: 1, calls: &calls}
		var extra Loader
		switch extraClass {
		case 0:
			ebase.o = int(nd.Int64())
			extra = &vLoadPrio{ebase}
		case 1:
			ebase.o = int(nd.Int64())
			extra = &vLoadOrd{ebase}
		default:
			extra = &vLoadPlain{ebase}
		}
		class = append(class, extraClass)
		order = append(order, ebase.o)
		c.AddLoaders(extra)
		calls = nil
		nd.Assert(c.Initialize() == nil, "C15: loading succeeds")
		nd.Assert(len(calls) == n+1, "C15: every loader is consulted exactly once per initialisation")
		for k := 1; k < len(calls); k++ {
			a, d := calls[k-1], calls[k]
			nd.Assert(class[a] <= class[d], "C12: loaders: priority-ordered before ordered before unordered")
			if class[a] == class[d] && class[a] < 2 {
				nd.Assert(order[a] <= order[d], "C12: loaders: Order never decreases inside a group")
			}
		}
		nd.Cover("re-initialised after adding a loader")
	}
	if n >= 2 {
		nd.Cover("several loaders")
	}
}

// C15/C12 with many loaders: merely ordered loaders of equal Order are consulted in the order they
// were added, also when a group is larger than the sorter's small-input special case.
func VerifC15ManyLoaders() {
	n := []int{13, 16, 30}[nd.Choose(3)]
	b := &vBinder{fail: -1}
	c := NewConfigure()
	c.SetBinder(b)
	var calls []int
	order := make([]int, n)
	for i := 0; i < n; i++ {
		order[i] = i % 3
		c.AddLoaders(&vLoadOrd{vLoad{id: i, o: order[i], doc: byte(i), calls: &calls}})
	}
	nd.Assert(c.Initialize() == nil, "C15: loading succeeds")
	nd.Assert(len(calls) == n, "C15: every loader is consulted exactly once")
	for k := 1; k < len(calls); k++ {
		a, d := calls[k-1], calls[k]
		nd.Assert(order[a] <= order[d], "C12: loaders: Order never decreases inside a group")
		if order[a] == order[d] {
			nd.Assert(a < d, "C15: loaders of equal rank are applied in the order they were added, however many there are")
		}
	}
	nd.Cover("many loaders")
}
