//go:build verif

package configure

import (
	"os"

	"github.com/go-kid/ioc/configure/binder"
	"github.com/go-kid/ioc/configure/loader"
	"github.com/go-kid/ioc/zzverif/nd"
)

// C15 (merge semantics) and C17 (what Get answers after a runtime Set): the real
// configure.Initialize/loadConfigure, the real loader.RawLoader and the real binder.ViperBinder.
// go-kid/ioc's own code runs symbolically; the *viper.Viper behind the binder is the real
// spf13/viper, driven natively by the engine on the (concrete) documents of each path.
// Documents are YAML texts assembled from symbolic choices: which of the overlapping keys
// (top-level, nested, two levels down) each document supplies.

func vFlatten(prefix string, v any, out map[string]any) {
	if m, ok := v.(map[string]any); ok {
		for k, e := range m {
			p := k
			if prefix != "" {
				p = prefix + "." + k
			}
			vFlatten(p, e, out)
		}
		return
	}
	out[prefix] = v
}

// a loader that reads what has been merged so far (a profile / import style loader)
type vProfileLoader struct{ c Configure }

func (l *vProfileLoader) LoadConfig() ([]byte, error) {
	v, _ := l.c.Get("solo0").(string)
	return []byte("imported: <" + v + ">\n"), nil
}

func VerifC15Merge() {
	// a process environment variable that happens to be named like a configuration key supplies nothing
	os.Setenv("ZZVTOP", "from-env")
	n := nd.Param("N", 3)
	c := NewConfigure()
	b := binder.NewViperBinder("yaml")
	c.SetBinder(b)
	want := map[string]string{}
	var order []string
	overlap := false
	put := func(k, v string) {
		if _, ok := want[k]; !ok {
			order = append(order, k)
		} else {
			overlap = true
		}
		want[k] = v
	}
	for i := 0; i < n; i++ {
		id := string([]byte{byte('0' + i)})
		doc := "solo" + id + ": s" + id + "\n"
		put("solo"+id, "s"+id)
		if nd.Bool() {
			doc += "zzvtop: t" + id + "\n"
			put("zzvtop", "t"+id)
		}
		nx, ny, nz := nd.Bool(), nd.Bool(), nd.Bool()
		if nx || ny || nz {
			doc += "n:\n"
			if nx {
				doc += "  x: x" + id + "\n"
				put("n.x", "x"+id)
			}
			if ny {
				doc += "  y: y" + id + "\n"
				put("n.y", "y"+id)
			}
			if nz {
				doc += "  deep:\n    z: z" + id + "\n"
				put("n.deep.z", "z"+id)
			}
		}
		c.AddLoaders(loader.NewRawLoader([]byte(doc)))
	}
	if nd.Param("ARGS", 1) == 1 && nd.Bool() {
		// command-line arguments: --app.config=path=value, rendered as a nested document by the real ArgsLoader
		c.AddLoaders(loader.NewArgsLoader([]string{"prog", "--app.config=n.x=argx", "--other", "--app.config=argonly.deep=ad"}))
		put("n.x", "argx")
		put("argonly.deep", "ad")
		nd.Cover("command-line arguments loaded")
		if nd.Bool() {
			// a source added AFTER the command-line loader comes later in the sequence, like after any other loader
			c.AddLoaders(loader.NewRawLoader([]byte("n:\n  x: afterargs\n")))
			put("n.x", "afterargs")
			nd.Cover("source added after the command-line loader")
		}
	}
	c.AddLoaders(&vProfileLoader{c: c})
	put("imported", "<s0>")
	nd.Assert(c.Initialize() == nil, "C15: loading succeeds")
	for _, k := range order {
		nd.Assert(c.Get(k) == any(want[k]), "C15: for a key supplied by several loaders the last one wins, and keys supplied by only one loader stay visible")
	}
	for _, k := range []string{"zzvtop", "n.x", "n.y", "n.deep.z"} {
		if _, ok := want[k]; !ok {
			nd.Assert(c.Get(k) == nil, "C15: a key no loader supplied is absent (nothing but the configured sources contributes)")
		}
	}
	if _, ok := want["argonly.deep"]; ok {
		sec, isMap := c.Get("n").(map[string]any)
		nd.Assert(isMap && sec["x"] == any(want["n.x"]), "C15: a value given on the command line is part of its section like any other source's (deep merge)")
	}
	flat := map[string]any{}
	vFlatten("", c.Get(""), flat)
	nd.Assert(len(flat) == len(want), "C15: the effective configuration holds exactly the merged keys")
	for _, k := range order {
		nd.Assert(flat[k] == any(want[k]), "C15: the effective configuration is the deep merge of all loader outputs")
	}
	if overlap {
		nd.Cover("overlapping documents merged")
	}
	// a source added after the configuration has been read, then loaded: it is the last in the sequence
	if nd.Bool() {
		c.AddLoaders(loader.NewRawLoader([]byte("zzvtop: again\nlate: l\nn:\n  y: yy\n")))
		nd.Assert(c.Initialize() == nil, "C15: loading succeeds")
		nd.Assert(c.Get("zzvtop") == any("again") && c.Get("late") == any("l") && c.Get("n.y") == any("yy"),
			"C15: a source added and loaded after the configuration was already read wins for its keys and shows its new keys")
		nd.Assert(c.Get("solo0") == any("s0") && c.Get("imported") == any("<s0>"), "C15: keys supplied by only one loader stay visible")
		nd.Cover("source added after a first read")
	}
	// runtime Set after a first read: every later Get answers from the current configuration
	first := c.Get("n.x")
	_ = first
	switch nd.Choose(4) {
	case 0:
		c.Set("n.x", "new")
		nd.Assert(c.Get("n.x") == any("new"), "C17: a value set at run time is what a later lookup of the same path returns")
	case 1:
		c.Set("n", map[string]any{"x": "new"})
		nd.Assert(c.Get("n.x") == any("new"), "C17: a subtree set at run time is what a later lookup below it returns")
		nd.Cover("subtree replaced at run time")
	case 2:
		c.Set("N.X", "new")
		nd.Assert(c.Get("n.x") == any("new"), "C17: configuration paths are case-insensitive, also for a value set at run time")
	}
	// whatever happened: the binder answers exactly what the configuration store holds
	for _, k := range []string{"zzvtop", "n", "n.x", "n.y", "n.deep", "n.deep.z", "solo0"} {
		got, held := c.Get(k), b.Viper.Get(k)
		_, gm := got.(map[string]any)
		_, hm := held.(map[string]any)
		if gm || hm {
			nd.Assert(gm == hm, "C17: the binder answers exactly what the configuration store holds")
			continue
		}
		nd.Assert(got == held, "C17: the binder answers exactly what the configuration store holds")
	}
	nd.Cover("merged")
}

// C15 on documents whose shapes conflict: the last loader still wins.  Both cases are decided by
// spf13/viper's merge and lookup, not by go-kid/ioc's own code (listed finding classes).
func VerifC15Conflicts() {
	c := NewConfigure()
	c.SetBinder(binder.NewViperBinder("yaml"))
	switch nd.Choose(3) {
	case 0:
		// an earlier loader supplies a map under a key, a later one a scalar
		c.AddLoaders(loader.NewRawLoader([]byte("a:\n  b: one\nk: v\n")), loader.NewRawLoader([]byte("a: five\n")))
		nd.Assert(c.Initialize() == nil, "C15: loading succeeds")
		nd.Known("C15/scalar-does-not-replace-map", true)
		nd.Assert(c.Get("a") == any("five"), "C15: for a key supplied by several loaders the last one wins, also when the shapes differ")
	case 1:
		// an earlier loader supplies a flat dotted key, a later one the same path as a nested key
		c.AddLoaders(loader.NewRawLoader([]byte("a.b: one\nk: v\n")), loader.NewRawLoader([]byte("a:\n  b: two\n")))
		nd.Assert(c.Initialize() == nil, "C15: loading succeeds")
		nd.Known("C15/dotted-key-shadows-nested", true)
		nd.Assert(c.Get("a.b") == any("two"), "C15: for a path supplied by several loaders the last one wins, however the path is spelled")
	default:
		// control: a later map over an earlier scalar does replace it
		c.AddLoaders(loader.NewRawLoader([]byte("a: five\nk: v\n")), loader.NewRawLoader([]byte("a:\n  b: one\n")))
		nd.Assert(c.Initialize() == nil, "C15: loading succeeds")
		nd.Assert(c.Get("a.b") == any("one"), "C15: for a key supplied by several loaders the last one wins, also when the shapes differ")
		nd.Cover("later map replaces earlier scalar")
	}
	nd.Assert(c.Get("k") == any("v"), "C15: keys supplied by only one loader stay visible")
}
