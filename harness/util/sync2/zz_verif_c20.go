//go:build verif

package sync2

import (
	"sync"

	"github.com/go-kid/ioc/zzverif/nd"
)

// CONC harness (C20 a): sync2.Map under symbolic interleavings.  sync.Map itself is
// the trusted model (each method one atomic step); every step of this package's own
// code between two sync.Map operations is a preemption point.

// two callers of LoadOrStoreFn never both win
func VerifC20LoadOrStoreFn() {
	m := New[string, int]()
	keys := []string{"k0", "k1"}
	kA, kB := keys[nd.Choose(2)], keys[nd.Choose(2)]
	pre := nd.Bool()
	if pre {
		m.Store(kA, 7) // sometimes the key is already present
	}
	var vA, vB int
	var lA, lB bool
	var wg sync.WaitGroup
	wg.Add(2)
	go func() {
		defer wg.Done()
		vA, lA = m.LoadOrStoreFn(kA, func() int { nd.Barrier(1, 2); return 1 })
	}()
	go func() {
		defer wg.Done()
		vB, lB = m.LoadOrStoreFn(kB, func() int { nd.Barrier(1, 2); return 2 })
	}()
	wg.Wait()
	if kA == kB {
		nd.Cover("same key")
		nd.Assert(lA || lB, "C20: a load-or-store never lets two callers both win")
		nd.Assert(vA == vB, "C20: both callers of a load-or-store on one key end up with the same value")
		cur, ok := m.Load(kA)
		nd.Assert(ok && cur == vA, "C20: the stored value is the one both callers were given")
	} else {
		nd.Cover("different keys")
		if pre {
			nd.Assert(lA && vA == 7, "C20: a present key is loaded, not stored")
		} else {
			nd.Assert(!lA && vA == 1, "C20: operations on different keys do not interfere")
		}
		nd.Assert(!lB && vB == 2, "C20: operations on different keys do not interfere")
	}
}

// a small linearizability check: 2 threads x up to 2 operations over keys {k0,k1}
type vOp struct {
	kind, key, arg int // kind: 0 Load 1 Store 2 LoadOrStore 3 LoadOrStoreFn 4 Delete
	res            int // returned value (0 = none)
	ok             bool
	call, ret      int64
}

func vApply(m *Map[int, int], o *vOp, clock *int64, mu *sync.Mutex) {
	mu.Lock()
	*clock++
	o.call = *clock
	mu.Unlock()
	switch o.kind {
	case 0:
		o.res, o.ok = m.Load(o.key)
	case 1:
		m.Store(o.key, o.arg)
	case 2:
		o.res, o.ok = m.LoadOrStore(o.key, o.arg)
	case 3:
		o.res, o.ok = m.LoadOrStoreFn(o.key, func() int { nd.Barrier(2, 2); return o.arg })
	case 4:
		m.Delete(o.key)
	}
	mu.Lock()
	*clock++
	o.ret = *clock
	mu.Unlock()
}

// sequential specification
func vSeq(state map[int]int, o *vOp) bool {
	v, present := state[o.key]
	switch o.kind {
	case 0:
		return o.ok == present && (!present || o.res == v)
	case 1:
		state[o.key] = o.arg
		return true
	case 2, 3:
		if present {
			return o.ok && o.res == v
		}
		state[o.key] = o.arg
		return !o.ok && o.res == o.arg
	case 4:
		delete(state, o.key)
		return true
	}
	return false
}

func vLinearizable(ops []*vOp, done []bool, state map[int]int, n int) bool {
	if n == len(ops) {
		return true
	}
	for i, o := range ops {
		if done[i] {
			continue
		}
		// o may come next only if no other pending operation returned before o was called
		minimal := true
		for j, p := range ops {
			if j != i && !done[j] && p.ret < o.call {
				minimal = false
			}
		}
		if !minimal {
			continue
		}
		st := map[int]int{}
		for _, k := range []int{0, 1} {
			if v, ok := state[k]; ok {
				st[k] = v
			}
		}
		if vSeq(st, o) {
			done[i] = true
			if vLinearizable(ops, done, st, n+1) {
				done[i] = false
				return true
			}
			done[i] = false
		}
	}
	return false
}

func VerifC20Linearizable() {
	m := New[int, int]()
	nops := nd.Param("OPS", 1)
	var th [2][]*vOp
	arg := 1
	for t := 0; t < 2; t++ {
		for i := 0; i < nops; i++ {
			th[t] = append(th[t], &vOp{kind: nd.Choose(5), key: nd.Choose(nd.Param("KEYS", 1)), arg: arg})
			arg++
		}
	}
	var clock int64
	var mu sync.Mutex
	var wg sync.WaitGroup
	wg.Add(2)
	for t := 0; t < 2; t++ {
		go func(t int) {
			defer wg.Done()
			for _, o := range th[t] {
				vApply(m, o, &clock, &mu)
			}
		}(t)
	}
	wg.Wait()
	var all []*vOp
	all = append(all, th[0]...)
	all = append(all, th[1]...)
	nd.Assert(vLinearizable(all, make([]bool, len(all)), map[int]int{}, 0), "C20: every concurrent history of the map is equivalent to some sequential one")
	nd.Cover("history checked")
}

// Range concurrent with a writer.  Range promises no snapshot, but every pair it hands to the
// callback is a mapping that some caller stored (never an invented value), no key is visited
// twice, and a key no concurrent operation touches is visited exactly once with its value.
func VerifC20Range() {
	m := New[int, int]()
	m.Store(0, 10)
	m.Store(1, 11)
	kind, key := nd.Choose(4), nd.Choose(3) // writer: 0 Delete 1 Store 2 LoadOrStore 3 LoadOrStoreFn; key 2 is absent initially
	type pair struct{ k, v int }
	var seen []pair
	var wg sync.WaitGroup
	wg.Add(2)
	go func() {
		defer wg.Done()
		m.Range(func(k, v int) bool {
			seen = append(seen, pair{k, v})
			// natively: the writer's operation happens while the first callback is running
			nd.Barrier(3, 2)
			nd.Barrier(4, 2)
			return true
		})
	}()
	go func() {
		defer wg.Done()
		defer nd.Barrier(4, 2)
		nd.Barrier(3, 2)
		switch kind {
		case 0:
			m.Delete(key)
		case 1:
			m.Store(key, 20)
		case 2:
			m.LoadOrStore(key, 20)
		default:
			m.LoadOrStoreFn(key, func() int { return 20 })
		}
	}()
	wg.Wait()
	initial := map[int]int{0: 10, 1: 11}
	count := map[int]int{}
	for _, p := range seen {
		count[p.k]++
		iv, had := initial[p.k]
		legal := had && p.v == iv
		if kind != 0 && p.k == key && p.v == 20 {
			legal = true
		}
		nd.Assert(legal, "C20: Range hands out only mappings that some caller stored")
	}
	for k := 0; k < 3; k++ {
		nd.Assert(count[k] <= 1, "C20: Range visits no key twice")
		if _, had := initial[k]; had && k != key {
			nd.Assert(count[k] == 1, "C20: a key no concurrent operation touches is visited exactly once")
		}
	}
	if kind == 0 && key < 2 {
		nd.Cover("Range concurrent with a Delete")
	}
	nd.Cover("range history checked")
}
