//go:build verif

package list

import (
	"sync"

	"github.com/go-kid/ioc/zzverif/nd"
)

// C20 a: the concurrent set: Put/Exists/Remove from two goroutines under symbolic interleavings
func VerifC20Set() {
	var s interface {
		Put(string)
		Exists(string) bool
		Remove(string)
		Length() int
		ToArray() []string
	}
	if nd.Bool() {
		s = NewConcurrentSets()
	} else {
		s = NewGenericConcurrentSets[string]()
		nd.Cover("generic set")
	}
	keys := []string{"a", "b"}
	type op struct {
		kind int
		key  string
		res  bool
	}
	var th [2][]*op
	for t := 0; t < 2; t++ {
		for i := 0; i < nd.Param("OPS", 2); i++ {
			th[t] = append(th[t], &op{kind: nd.Choose(3), key: keys[nd.Choose(2)]})
		}
	}
	// optionally the first key is in the set before the goroutines start
	pre := nd.Bool()
	if pre {
		s.Put(keys[0])
	}
	var wg sync.WaitGroup
	wg.Add(2)
	for t := 0; t < 2; t++ {
		go func(t int) {
			defer wg.Done()
			for _, o := range th[t] {
				switch o.kind {
				case 0:
					s.Put(o.key)
				case 1:
					o.res = s.Exists(o.key)
				case 2:
					s.Remove(o.key)
				}
			}
		}(t)
	}
	wg.Wait()
	// a key nobody ever put is never reported; a key put and never removed by anyone is reported afterwards
	for _, k := range keys {
		put, removed := pre && k == keys[0], false
		for t := 0; t < 2; t++ {
			for _, o := range th[t] {
				if o.key == k && o.kind == 0 {
					put = true
				}
				if o.key == k && o.kind == 2 {
					removed = true
				}
			}
		}
		for t := 0; t < 2; t++ {
			for _, o := range th[t] {
				if o.key == k && o.kind == 1 && !put {
					nd.Assert(!o.res, "C20: a key that was never put is never reported as present")
				}
			}
		}
		if put && !removed {
			nd.Assert(s.Exists(k), "C20: a key that was put and never removed is present afterwards")
		}
		if !put {
			nd.Assert(!s.Exists(k), "C20: a key that was never put is absent afterwards")
		}
	}
	// once the goroutines are done the set is quiescent: every view of its size agrees with its membership
	present := 0
	for _, k := range keys {
		if s.Exists(k) {
			present++
		}
	}
	nd.Assert(s.Length() == present && len(s.ToArray()) == present, "C20: after concurrent operations the set's size agrees with its membership (no sequential order of the calls explains anything else)")
	nd.Cover("set history checked")
}
