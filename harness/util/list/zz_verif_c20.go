//go:build verif

package list

import (
	"sync"
	"sync/atomic"

	"github.com/go-kid/ioc/zzverif/nd"
)

// C20 a: the concurrent set: Put/Exists/Remove from two goroutines under symbolic interleavings
func VerifC20Set() {
	var s interface {
		Put(string)
		Exists(string) bool
		Remove(string)
		Length() int
		ToArray() []string
	}
	generic := !nd.Bool()
	if generic {
		nd.Cover("generic set")
	}
	fresh := func() {
		if generic {
			s = NewGenericConcurrentSets[string]()
		} else {
			s = NewConcurrentSets()
		}
	}
	fresh()
	keys := []string{"a", "b"}
	type op = vSetOp
	var th [2][]*op
	for t := 0; t < 2; t++ {
		for i := 0; i < nd.Param("OPS", 2); i++ {
			th[t] = append(th[t], &op{kind: nd.Choose(3), key: keys[nd.Choose(2)]})
		}
	}
	// optionally the first key is in the set before the goroutines start
	pre := nd.Bool()
	// Under the engine the scenario runs once and the interleaving is a symbolic choice.  Natively (sampled
	// paths and counterexample replays) nothing forces an interleaving, so the same scenario is repeated
	// on fresh sets with the two goroutines released together: a violating interleaving the engine
	// predicted shows up in one of the rounds.
	rounds := 1
	if !nd.Symbolic() {
		rounds = 6000
	}
	for round := 0; round < rounds; round++ {
		if round > 0 {
			fresh()
		}
		vSetRound(s, pre, keys, th[0], th[1])
	}
	nd.Cover("set history checked")
}

type vSetOp = struct {
	kind int
	key  string
	res  bool
}

func vSetRound(s interface {
	Put(string)
	Exists(string) bool
	Remove(string)
	Length() int
	ToArray() []string
}, pre bool, keys []string, t0, t1 []*vSetOp) {
	th := [2][]*vSetOp{t0, t1}
	if pre {
		s.Put(keys[0])
	}
	var wg sync.WaitGroup
	wg.Add(2)
	var ready atomic.Int32
	for t := 0; t < 2; t++ {
		go func(t int) {
			defer wg.Done()
			if !nd.Symbolic() {
				// released together
				ready.Add(1)
				for ready.Load() < 2 {
				}
			}
			for _, o := range th[t] {
				switch o.kind {
				case 0:
					s.Put(o.key)
				case 1:
					o.res = s.Exists(o.key)
				case 2:
					s.Remove(o.key)
				}
			}
		}(t)
	}
	wg.Wait()
	// a key nobody ever put is never reported; a key put and never removed by anyone is reported afterwards
	for _, k := range keys {
		put, removed := pre && k == keys[0], false
		for t := 0; t < 2; t++ {
			for _, o := range th[t] {
				if o.key == k && o.kind == 0 {
					put = true
				}
				if o.key == k && o.kind == 2 {
					removed = true
				}
			}
		}
		for t := 0; t < 2; t++ {
			for _, o := range th[t] {
				if o.key == k && o.kind == 1 && !put {
					nd.Assert(!o.res, "C20: a key that was never put is never reported as present")
				}
			}
		}
		if put && !removed {
			nd.Assert(s.Exists(k), "C20: a key that was put and never removed is present afterwards")
		}
		if !put {
			nd.Assert(!s.Exists(k), "C20: a key that was never put is absent afterwards")
		}
	}
	// once the goroutines are done the set is quiescent: every view of its size agrees with its membership
	present := 0
	for _, k := range keys {
		if s.Exists(k) {
			present++
		}
	}
	nd.Assert(s.Length() == present && len(s.ToArray()) == present, "C20: after concurrent operations the set's size agrees with its membership (no sequential order of the calls explains anything else)")
}
