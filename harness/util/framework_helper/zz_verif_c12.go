//go:build verif

package framework_helper

import (
	"github.com/go-kid/ioc/zzverif/nd"
)

type vP interface{ id() int }

type vPrio struct {
	i int
	o int
}

func (p *vPrio) id() int    { return p.i }
func (p *vPrio) Order() int { return p.o }
func (p *vPrio) Priority()  {}

type vOrd struct {
	i int
	o int
}

func (p *vOrd) id() int    { return p.i }
func (p *vOrd) Order() int { return p.o }

type vPlain struct{ i int }

func (p *vPlain) id() int { return p.i }

// carries the Priority marker but no Order(): it is NOT ordered, hence an unordered participant
type vMarkerOnly struct{ i int }

func (p *vMarkerOnly) id() int   { return p.i }
func (p *vMarkerOnly) Priority() {}

// Order() has a pointer receiver: a *vValOrd is an ordered participant, a plain vValOrd value is not
type vValOrd struct {
	i int
	o int
}

func (p vValOrd) id() int     { return p.i }
func (p *vValOrd) Order() int { return p.o }

func vClass(p vP) int {
	switch p.(type) {
	case *vPrio:
		return 0
	case *vOrd, *vValOrd:
		return 1
	}
	return 2
}
func vOrder(p vP) int {
	switch q := p.(type) {
	case *vPrio:
		return q.o
	case *vOrd:
		return q.o
	case *vValOrd:
		return q.o
	}
	return 0
}

// C12: SortOrderedComponents over n participants of symbolic class and
// unconstrained 64-bit Order(), through the real sort.Slice.
func VerifC12Sort() {
	n := nd.Param("N", 3)
	var in []vP
	for i := 0; i < n; i++ {
		switch nd.Choose(nd.Param("CLASSES", 6)) {
		case 4:
			in = append(in, &vValOrd{i: i, o: int(nd.Int64())})
			nd.Cover("pointer of a type whose value is unordered")
		case 5:
			in = append(in, vValOrd{i: i})
		case 0:
			in = append(in, &vPrio{i: i, o: int(nd.Int64())})
		case 1:
			in = append(in, &vOrd{i: i, o: int(nd.Int64())})
		case 2:
			in = append(in, &vPlain{i: i})
		default:
			in = append(in, &vMarkerOnly{i: i})
			nd.Cover("marker-only participant")
		}
	}
	saved := append([]vP{}, in...)
	out := SortOrderedComponents(in)
	// the caller's own list may be reordered by the sorter, but never loses or duplicates a participant
	for _, p := range saved {
		c := 0
		for _, q := range in {
			if q == p {
				c++
			}
		}
		nd.Assert(c == 1, "C12: sequencing the participants never drops or duplicates an entry of the caller's own list")
	}
	nd.Assert(len(out) == len(in), "same length")
	seen := make([]int, len(in))
	for _, p := range out {
		seen[p.id()]++
	}
	for _, c := range seen {
		nd.Assert(c == 1, "every participant exactly once")
	}
	for k := 1; k < len(out); k++ {
		a, b := out[k-1], out[k]
		nd.Assert(vClass(a) <= vClass(b), "priority-ordered < ordered < unordered")
		if vClass(a) == vClass(b) && vClass(a) < 2 {
			nd.Assert(vOrder(a) <= vOrder(b), "Order never decreases inside a group")
		}
	}
	if n >= 2 {
		nd.Cover("sorted")
	}
}
