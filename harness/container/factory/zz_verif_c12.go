//go:build verif

package factory

import (
	"github.com/go-kid/ioc/component_definition"
	"github.com/go-kid/ioc/container"
	"github.com/go-kid/ioc/container/support"
	"github.com/go-kid/ioc/zzverif/nd"
)

// C12 (post-processor call site): the callbacks of component post-processors are
// invoked in the ordering contract's sequence, for eager and lazy-init processors.

type vOP struct {
	id       int
	o        int
	name     string
	log      *[]int
	decorate bool
	self     func() *component_definition.Meta
	dep      func() *component_definition.Meta
	D        any // an eager processor may have a dependency of its own: it is created while the chain is being activated
}

// what a decorating processor puts in place of another processor component: not a post-processor itself
type vOPProxy struct{ inner any }

func (p *vOP) Naming() string { return p.name }
func (p *vOP) PostProcessBeforeInitialization(c any, name string) (any, error) {
	if name == "t" {
		*p.log = append(*p.log, p.id)
	}
	if name == "d" {
		*p.log = append(*p.log, 400+p.id)
	}
	return c, nil
}
func (p *vOP) PostProcessAfterInitialization(c any, name string) (any, error) {
	if name == "t" {
		*p.log = append(*p.log, 100+p.id)
	}
	if name == "d" {
		*p.log = append(*p.log, 500+p.id)
	}
	if p.decorate && name != "t" && name != p.name {
		nd.Cover("a processor component decorated by an earlier processor")
		return &vOPProxy{inner: c}, nil
	}
	return c, nil
}

// every harness processor is also instantiation-aware and "smart": the callbacks around population and
// the early-reference callback are sequenced by the same contract
func (p *vOP) PostProcessBeforeInstantiation(m *component_definition.Meta, name string) (any, error) {
	return nil, nil
}
func (p *vOP) PostProcessAfterInstantiation(c any, name string) (bool, error) { return true, nil }
func (p *vOP) PostProcessProperties(props []*component_definition.Property, c any, name string) ([]*component_definition.Property, error) {
	for _, pr := range props {
		if pr.StructField.Name == "D" && len(pr.Injects) == 0 && p.dep != nil {
			pr.Injects = append(pr.Injects, p.dep())
		}
	}
	if name == "t" {
		*p.log = append(*p.log, 300+p.id)
		// the target refers to itself: its own early reference is requested while it is populated
		for _, pr := range props {
			if pr.StructField.Name == "P0" && len(pr.Injects) == 0 && p.self != nil {
				pr.Injects = append(pr.Injects, p.self())
			}
		}
	}
	return nil, nil
}
func (p *vOP) GetEarlyBeanReference(c any, name string) (any, error) {
	if name == "t" {
		*p.log = append(*p.log, 200+p.id)
	}
	return c, nil
}

type vOPPrioEager struct{ vOP }

func (p *vOPPrioEager) Order() int { return p.o }
func (p *vOPPrioEager) Priority()  {}

type vOPPrioLazy struct{ vOP }

func (p *vOPPrioLazy) Order() int { return p.o }
func (p *vOPPrioLazy) Priority()  {}
func (p *vOPPrioLazy) LazyInit()  {}

type vOPOrdEager struct{ vOP }

func (p *vOPOrdEager) Order() int { return p.o }

type vOPOrdLazy struct{ vOP }

func (p *vOPOrdLazy) Order() int { return p.o }
func (p *vOPOrdLazy) LazyInit()  {}

type vOPPlainEager struct{ vOP }

type vOPPlainLazy struct{ vOP }

func (p *vOPPlainLazy) LazyInit() {}

func VerifC12Processors() {
	k := nd.Param("K", 2)
	f := &defaultFactory{
		definitionRegistry:                support.DefaultDefinitionRegistry(),
		singletonComponentRegistry:        support.DefaultSingletonComponentRegistry(),
		postProcessorRegistrationDelegate: NewPostProcessorRegistrationDelegate(),
		allowCircularReferences:           true,
	}
	var log []int
	depGiven := false
	class := make([]int, k)
	order := make([]int, k)
	for i := 0; i < k; i++ {
		class[i] = nd.Choose(3)
		lazy := nd.Bool()
		base := vOP{id: i, name: "p" + vNames[i], log: &log}
		if nd.Param("DEP", 0) == 1 {
			base.dep = func() *component_definition.Meta { return f.definitionRegistry.GetMetaByName("d") }
		}
		if nd.Param("SMART", 0) == 1 {
			base.self = func() *component_definition.Meta { return f.definitionRegistry.GetMetaByName("t") }
		}
		if i == 0 && nd.Param("DECORATE", 0) == 1 {
			base.decorate = nd.Bool()
		}
		if class[i] < 2 {
			base.o = int(nd.Int64())
		}
		order[i] = base.o
		var p container.ComponentPostProcessor
		switch {
		case class[i] == 0 && !lazy:
			p = &vOPPrioEager{base}
		case class[i] == 0:
			p = &vOPPrioLazy{base}
		case class[i] == 1 && !lazy:
			p = &vOPOrdEager{base}
		case class[i] == 1:
			p = &vOPOrdLazy{base}
		case !lazy:
			p = &vOPPlainEager{base}
		default:
			p = &vOPPlainLazy{base}
		}
		if !lazy {
			nd.Cover("eager processor")
			pm := f.definitionRegistry.GetMetaOrRegister(base.name, p)
			if nd.Param("DEP", 0) == 1 && !depGiven && nd.Bool() {
				depGiven = true
				for _, fld := range pm.Fields {
					if fld.StructField.Name == "D" {
						pm.SetProperties(component_definition.NewProperty(fld, component_definition.PropertyTypeComponent, "wire", ",required=false"))
						nd.Cover("a processor with a dependency created during activation")
					}
				}
			}
		}
		f.postProcessorRegistrationDelegate.RegisterComponentPostProcessors(p, base.name)
	}
	target := &vNode{name: "t", idx: 0, env: &vEnv{}}
	if nd.Param("DEP", 0) == 1 {
		f.definitionRegistry.GetMetaOrRegister("d", &vNode{name: "d", idx: 0, env: &vEnv{}})
	}
	tm := f.definitionRegistry.GetMetaOrRegister("t", target)
	if nd.Param("SMART", 0) == 1 {
		for _, fld := range tm.Fields {
			if fld.StructField.Name == "P0" {
				tm.SetProperties(component_definition.NewProperty(fld, component_definition.PropertyTypeComponent, "wire", ",required=false"))
			}
		}
	}
	err := f.postProcessorRegistrationDelegate.InvokeBeanFactoryPostProcessors(f, nil)
	nd.Assert(err == nil, "processor activation ok")
	nd.Assert(f.Refresh() == nil, "start ok")
	// the target saw every processor exactly once before and once after initialization, in contract order
	var before, after, early, props, dBefore, dAfter []int
	for _, e := range log {
		switch {
		case e < 100:
			before = append(before, e)
		case e < 200:
			after = append(after, e-100)
		case e < 300:
			early = append(early, e-200)
		case e < 400:
			props = append(props, e-300)
		case e < 500:
			dBefore = append(dBefore, e-400)
		default:
			dAfter = append(dAfter, e-500)
		}
	}
	// a component created while the chain is being activated sees the processors activated so far - in contract order
	for _, seq := range [][]int{dBefore, dAfter} {
		for j := 1; j < len(seq); j++ {
			a, b := seq[j-1], seq[j]
			nd.Assert(a != b, "C12: every post-processor's callback is invoked at most once per component")
			nd.Assert(class[a] <= class[b], "C12: post-processor callbacks during activation: priority-ordered before ordered before unordered")
			if class[a] == class[b] && class[a] < 2 {
				nd.Assert(order[a] <= order[b], "C12: post-processor callbacks during activation: Order never decreases inside a group")
			}
		}
		if len(seq) > 1 && len(seq) < k {
			nd.Cover("a component created during activation saw part of the chain")
		}
	}
	seqs := [][]int{before, after}
	if nd.Param("SMART", 0) == 1 {
		nd.Cover("early-reference and population callbacks checked")
		seqs = append(seqs, early, props)
	}
	for _, seq := range seqs {
		nd.Assert(len(seq) == k, "C12: every post-processor's callback is invoked exactly once per component")
		for j := 1; j < len(seq); j++ {
			a, b := seq[j-1], seq[j]
			nd.Assert(class[a] <= class[b], "C12: post-processor callbacks: priority-ordered before ordered before unordered")
			if class[a] == class[b] && class[a] < 2 {
				nd.Assert(order[a] <= order[b], "C12: post-processor callbacks: Order never decreases inside a group")
			}
		}
	}
	nd.Cover("callbacks checked")
}
