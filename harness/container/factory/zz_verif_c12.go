//go:build verif

package factory

import (
	"github.com/go-kid/ioc/container"
	"github.com/go-kid/ioc/container/support"
	"github.com/go-kid/ioc/zzverif/nd"
)

// C12 (post-processor call site): the callbacks of component post-processors are
// invoked in the ordering contract's sequence, for eager and lazy-init processors.

type vOP struct {
	id       int
	o        int
	name     string
	log      *[]int
	decorate bool
}

// what a decorating processor puts in place of another processor component: not a post-processor itself
type vOPProxy struct{ inner any }

func (p *vOP) Naming() string { return p.name }
func (p *vOP) PostProcessBeforeInitialization(c any, name string) (any, error) {
	if name == "t" {
		*p.log = append(*p.log, p.id)
	}
	return c, nil
}
func (p *vOP) PostProcessAfterInitialization(c any, name string) (any, error) {
	if name == "t" {
		*p.log = append(*p.log, 100+p.id)
	}
	if p.decorate && name != "t" && name != p.name {
		nd.Cover("a processor component decorated by an earlier processor")
		return &vOPProxy{inner: c}, nil
	}
	return c, nil
}

type vOPPrioEager struct{ vOP }

func (p *vOPPrioEager) Order() int { return p.o }
func (p *vOPPrioEager) Priority()  {}

type vOPPrioLazy struct{ vOP }

func (p *vOPPrioLazy) Order() int { return p.o }
func (p *vOPPrioLazy) Priority()  {}
func (p *vOPPrioLazy) LazyInit()  {}

type vOPOrdEager struct{ vOP }

func (p *vOPOrdEager) Order() int { return p.o }

type vOPOrdLazy struct{ vOP }

func (p *vOPOrdLazy) Order() int { return p.o }
func (p *vOPOrdLazy) LazyInit()  {}

type vOPPlainEager struct{ vOP }

type vOPPlainLazy struct{ vOP }

func (p *vOPPlainLazy) LazyInit() {}

func VerifC12Processors() {
	k := nd.Param("K", 2)
	f := &defaultFactory{
		definitionRegistry:                support.DefaultDefinitionRegistry(),
		singletonComponentRegistry:        support.DefaultSingletonComponentRegistry(),
		postProcessorRegistrationDelegate: NewPostProcessorRegistrationDelegate(),
		allowCircularReferences:           true,
	}
	var log []int
	class := make([]int, k)
	order := make([]int, k)
	for i := 0; i < k; i++ {
		class[i] = nd.Choose(3)
		lazy := nd.Bool()
		base := vOP{id: i, name: "p" + vNames[i], log: &log}
		if i == 0 && nd.Param("DECORATE", 0) == 1 {
			base.decorate = nd.Bool()
		}
		if class[i] < 2 {
			base.o = int(nd.Int64())
		}
		order[i] = base.o
		var p container.ComponentPostProcessor
		switch {
		case class[i] == 0 && !lazy:
			p = &vOPPrioEager{base}
		case class[i] == 0:
			p = &vOPPrioLazy{base}
		case class[i] == 1 && !lazy:
			p = &vOPOrdEager{base}
		case class[i] == 1:
			p = &vOPOrdLazy{base}
		case !lazy:
			p = &vOPPlainEager{base}
		default:
			p = &vOPPlainLazy{base}
		}
		if !lazy {
			nd.Cover("eager processor")
			f.definitionRegistry.GetMetaOrRegister(base.name, p)
		}
		f.postProcessorRegistrationDelegate.RegisterComponentPostProcessors(p, base.name)
	}
	target := &vNode{name: "t", idx: 0, env: &vEnv{}}
	f.definitionRegistry.GetMetaOrRegister("t", target)
	err := f.postProcessorRegistrationDelegate.InvokeBeanFactoryPostProcessors(f, nil)
	nd.Assert(err == nil, "processor activation ok")
	nd.Assert(f.Refresh() == nil, "start ok")
	// the target saw every processor exactly once before and once after initialization, in contract order
	var before, after []int
	for _, e := range log {
		if e < 100 {
			before = append(before, e)
		} else {
			after = append(after, e-100)
		}
	}
	for _, seq := range [][]int{before, after} {
		nd.Assert(len(seq) == k, "C12: every post-processor's callback is invoked exactly once per component")
		for j := 1; j < len(seq); j++ {
			a, b := seq[j-1], seq[j]
			nd.Assert(class[a] <= class[b], "C12: post-processor callbacks: priority-ordered before ordered before unordered")
			if class[a] == class[b] && class[a] < 2 {
				nd.Assert(order[a] <= order[b], "C12: post-processor callbacks: Order never decreases inside a group")
			}
		}
	}
	nd.Cover("callbacks checked")
}
