//go:build verif

package factory

import (
	"errors"

	"github.com/go-kid/ioc/component_definition"
	"github.com/go-kid/ioc/container"
	"github.com/go-kid/ioc/container/support"
	"github.com/go-kid/ioc/util/reflectx"
	"github.com/go-kid/ioc/zzverif/nd"
)

// ---------------------------------------------------------------------------
// MC "mini-container": a real defaultFactory with the real definition registry,
// the real three-level singleton registry, the real post-processor delegate and
// real component_definition metas/properties.  Components are harness nodes;
// the harness post-processor plays the role of the resolution processors (it
// fills Property.Injects when populateComponent reaches a component) and of a
// user post-processor whose callbacks can wrap components or fail.
// ---------------------------------------------------------------------------

const (
	evConfig = iota
	evBefore
	evAPS
	evInit
	evAfter
	evEarly
)

type vEvent struct{ kind, node int }

type vEnv struct {
	n          int
	f          *defaultFactory
	nodes      []*vNode
	raws       []any // registered objects (vNode or vLazyNode)
	metas      []*component_definition.Meta
	lazy       []bool
	log        []vEvent
	faultsLeft int
	faults     []vEvent
	// resolution choices made so far: choice[node][point] = target indices (nil = not chosen yet)
	chosen   [][4]bool
	choice   [][4][]int
	required [][4]bool
	points   int
	badPoint bool // a required point whose only candidates are its own holder was chosen
	// wrapping (C03)
	wrapNode               int
	wrapEarly, wrapAfter   bool
	sameWrapper            bool
	equalContent           bool // distinct wrapper objects with equal contents
	prewire, prewired      bool
	panicFaults            bool // injected faults panic instead of returning an error
	nilEarly, nilEarlyUsed bool // the early-reference callback answers (nil, nil) when it has nothing to substitute
	wrappers               []*vWrap
	earlyServed            []int
	populatedBeforeChecks  bool
	fixed                  [][4][]int // pre-drawn graph (C10: the same graph is started twice)
	lookupMode             bool       // a component's Init may look another component up through the factory
	lookupOf               []int      // per node: -2 not decided, -1 none, else target
	lookupGot              []any
	userProcFalse          bool // a user processor may answer false in PostProcessAfterInstantiation
	replaceNode            int  // component replaced before instantiation (-1 = none)
	replacement            *vWrap
	initOK                 []bool // the component's last creation attempt ran its Init to a successful end
	regOrder               []int
}

func (e *vEnv) ev(kind, node int) { e.log = append(e.log, vEvent{kind, node}) }

// observe: the ghost event log as one number (compared between the engine and the native build)
func (e *vEnv) observe(err error) {
	h := 0
	for i, ev := range e.log {
		h += (i + 1) * (ev.kind*8 + ev.node + 1)
	}
	nd.Observe("events", len(e.log), h, err == nil)
}

func (e *vEnv) fault(kind, node int) bool {
	if e.faultsLeft == 0 {
		return false
	}
	if nd.Bool() {
		e.faultsLeft--
		e.faults = append(e.faults, vEvent{kind, node})
		if e.panicFaults {
			// the callback fails by panicking; the application recovers around its call into the container
			panic("boom")
		}
		return true
	}
	return false
}

var errBoom = errors.New("boom")

type vNode struct {
	name string
	idx  int
	env  *vEnv
	P0   any    `wire:""`
	P1   any    `wire:""`
	S0   []any  `wire:""`
	T0   *vNode `wire:""` // a point declared with the concrete component type
}

func (v *vNode) Naming() string { return v.name }
func (v *vNode) AfterPropertiesSet() error {
	v.env.ev(evAPS, v.idx)
	if v.env.fault(evAPS, v.idx) {
		return errBoom
	}
	return nil
}
func (v *vNode) Init() error {
	e := v.env
	e.ev(evInit, v.idx)
	if e.fault(evInit, v.idx) {
		return errBoom
	}
	if v.idx < len(e.initOK) {
		e.initOK[v.idx] = true
	}
	if e.lookupMode && e.lookupOf[v.idx] == -2 {
		// a factory-aware component: its Init looks another component up by name
		e.lookupOf[v.idx] = nd.Choose(e.n+1) - 1
		if t := e.lookupOf[v.idx]; t >= 0 {
			c, err := e.f.GetComponentByName(e.nodes[t].name)
			if err != nil {
				return err
			}
			e.lookupGot[v.idx] = c
		}
	}
	return nil
}

type vLazyNode struct{ vNode }

func (v *vLazyNode) LazyInit() {}

type vWrap struct {
	inner any
	gen   int
}

func vNodeOf(c any) *vNode {
	switch t := c.(type) {
	case *vNode:
		return t
	case *vLazyNode:
		return &t.vNode
	case *vWrap:
		return vNodeOf(t.inner)
	}
	return nil
}

func pointIndex(name string) int {
	switch name {
	case "P0":
		return 0
	case "P1":
		return 1
	case "S0":
		return 2
	case "T0":
		return 3
	}
	return -1
}

// vProc: resolution + user post-processor of the harness.
type vProc struct{ env *vEnv }

func (p *vProc) LazyInit() {}

func (p *vProc) PostProcessBeforeInstantiation(m *component_definition.Meta, n string) (any, error) {
	e := p.env
	// a processor may supply a ready-made replacement for one component instead of letting the
	// container populate and initialise it
	if e.replaceNode >= 0 {
		if v := vNodeOf(m.Raw); v != nil && v.idx == e.replaceNode {
			if e.replacement == nil {
				e.replacement = &vWrap{inner: m.Raw, gen: 100}
			}
			return e.replacement, nil
		}
	}
	return nil, nil
}
func (p *vProc) PostProcessAfterInstantiation(c any, n string) (bool, error) { return true, nil }

func (p *vProc) PostProcessProperties(props []*component_definition.Property, c any, name string) ([]*component_definition.Property, error) {
	e := p.env
	v := vNodeOf(c)
	if v == nil {
		return nil, nil
	}
	e.ev(evConfig, v.idx)
	if v.idx < len(e.initOK) {
		e.initOK[v.idx] = false // a new creation attempt starts
	}
	if e.fault(evConfig, v.idx) {
		return nil, errBoom
	}
	// iterate points in a fixed order (GetAllProperties ranges over a map)
	for pt := 0; pt < 4; pt++ {
		for _, pr := range props {
			if pointIndex(pr.StructField.Name) != pt {
				continue
			}
			if e.chosen[v.idx][pt] {
				// a repeated creation attempt: the resolution nominates the same candidates again
				// (the factory forgets what an earlier attempt collected)
				if len(pr.Injects) == 0 {
					for _, t := range e.choice[v.idx][pt] {
						pr.Injects = append(pr.Injects, e.metas[t])
					}
				}
				continue
			}
			e.chosen[v.idx][pt] = true
			var tg []int
			if e.fixed != nil {
				tg = e.fixed[v.idx][pt]
			} else if pt != 2 {
				// a required point always has a candidate here (the "no candidate" case is
				// decided by the resolution processors, see the RH harness)
				if e.required[v.idx][pt] {
					tg = []int{nd.Choose(e.n)}
				} else if k := nd.Choose(e.n + 1); k < e.n {
					tg = []int{k}
				}
			} else {
				for j := 0; j < e.n; j++ {
					if nd.Bool() {
						tg = append(tg, j)
					}
				}
			}
			if pt == 3 && len(tg) == 1 && e.lazy[tg[0]] {
				tg = nil // a lazy component's object is not a *vNode
			}
			e.choice[v.idx][pt] = tg
			if e.prewire && pt == 0 && len(tg) == 1 && tg[0] != v.idx && !e.lazy[tg[0]] {
				// the application wired this point by hand, with the registered component itself
				v.P0 = e.nodes[tg[0]]
				e.prewired = true
			}
			onlySelf := len(tg) > 0
			for _, t := range tg {
				pr.Injects = append(pr.Injects, e.metas[t])
				if t != v.idx {
					onlySelf = false
				}
			}
			if onlySelf && e.required[v.idx][pt] {
				e.badPoint = true
			}
		}
	}
	return nil, nil
}

func (p *vProc) PostProcessBeforeInitialization(c any, name string) (any, error) {
	e := p.env
	v := vNodeOf(c)
	if v == nil {
		return c, nil
	}
	e.ev(evBefore, v.idx)
	// C05: every point with a non-self candidate is already populated
	if e.populatedBeforeChecks {
		for pt := 0; pt < 2; pt++ {
			tg := e.choice[v.idx][pt]
			if len(tg) == 1 && tg[0] != v.idx {
				var fld any
				if pt == 0 {
					fld = v.P0
				} else {
					fld = v.P1
				}
				nd.Assert(fld != nil, "C05: injection point populated before the before-initialization callback")
			}
		}
		want := 0
		for _, t := range e.choice[v.idx][2] {
			if t != v.idx {
				want++
			}
		}
		nd.Assert(len(v.S0) == want, "C05: slice point populated before the before-initialization callback")
	}
	if e.fault(evBefore, v.idx) {
		return nil, errBoom
	}
	return c, nil
}

func (p *vProc) wrap(c any) any {
	e := p.env
	if e.sameWrapper && len(e.wrappers) > 0 {
		return e.wrappers[0]
	}
	w := &vWrap{inner: c, gen: len(e.wrappers)}
	if e.equalContent {
		w.gen = 0
	}
	e.wrappers = append(e.wrappers, w)
	return w
}

func (p *vProc) PostProcessAfterInitialization(c any, name string) (any, error) {
	e := p.env
	v := vNodeOf(c)
	if v == nil {
		return c, nil
	}
	e.ev(evAfter, v.idx)
	if e.fault(evAfter, v.idx) {
		return nil, errBoom
	}
	if e.wrapAfter && v.idx == e.wrapNode {
		return p.wrap(c), nil
	}
	return c, nil
}

func (p *vProc) GetEarlyBeanReference(c any, name string) (any, error) {
	e := p.env
	v := vNodeOf(c)
	if v == nil {
		return c, nil
	}
	e.ev(evEarly, v.idx)
	e.earlyServed = append(e.earlyServed, v.idx)
	if e.fault(evEarly, v.idx) {
		return nil, errBoom
	}
	if e.wrapEarly && v.idx == e.wrapNode {
		return p.wrap(c), nil
	}
	if e.nilEarly {
		// "nothing to substitute", as a processor may answer from the before/after-initialization callbacks
		e.nilEarlyUsed = true
		return nil, nil
	}
	return c, nil
}

// vProc0: an ordered user processor that runs before the resolution processor and may decline
// (PostProcessAfterInstantiation = false); that only skips ITS OWN PostProcessProperties.
type vProc0 struct {
	env *vEnv
}

func (p *vProc0) LazyInit()                                                    {}
func (p *vProc0) Order() int                                                   { return -5 }
func (p *vProc0) PostProcessBeforeInitialization(c any, n string) (any, error) { return c, nil }
func (p *vProc0) PostProcessAfterInitialization(c any, n string) (any, error)  { return c, nil }
func (p *vProc0) PostProcessBeforeInstantiation(m *component_definition.Meta, n string) (any, error) {
	return nil, nil
}
func (p *vProc0) PostProcessAfterInstantiation(c any, n string) (bool, error) {
	if p.env.userProcFalse {
		return nd.Bool(), nil
	}
	return true, nil
}
func (p *vProc0) PostProcessProperties(props []*component_definition.Property, c any, n string) ([]*component_definition.Property, error) {
	return nil, nil
}

var vNames = []string{"a", "b", "c", "d", "e"}

// newMC builds the mini-container.  points: bitmask 1=P0 2=P1 4=S0.
// reqMode: 0 = every point required, 1 = symbolic per point, 2 = every point optional.
func newMC(n, points int, lazyMix bool, reqMode int, faults int) *vEnv {
	e := &vEnv{n: n, points: points, faultsLeft: faults, wrapNode: -1, replaceNode: -1}
	e.f = &defaultFactory{
		definitionRegistry:                support.DefaultDefinitionRegistry(),
		singletonComponentRegistry:        support.DefaultSingletonComponentRegistry(),
		postProcessorRegistrationDelegate: NewPostProcessorRegistrationDelegate(),
		allowCircularReferences:           true,
	}
	e.chosen = make([][4]bool, n)
	e.choice = make([][4][]int, n)
	e.required = make([][4]bool, n)
	e.lookupOf = make([]int, n)
	e.initOK = make([]bool, n)
	e.lookupGot = make([]any, n)
	for i := range e.lookupOf {
		e.lookupOf[i] = -2
	}
	for i := 0; i < n; i++ {
		var raw any
		var node *vNode
		isLazy := lazyMix && nd.Bool()
		if isLazy {
			l := &vLazyNode{vNode{name: vNames[i], idx: i, env: e}}
			raw, node = l, &l.vNode
		} else {
			node = &vNode{name: vNames[i], idx: i, env: e}
			raw = node
		}
		e.lazy = append(e.lazy, isLazy)
		e.nodes = append(e.nodes, node)
		e.raws = append(e.raws, raw)
		m := e.f.definitionRegistry.GetMetaOrRegister(node.name, raw)
		// optionally a component has no injection point at all
		bare := nd.Param("BARE", 0) == 1 && nd.Bool()
		for _, fld := range m.Fields {
			pt := pointIndex(fld.StructField.Name)
			if pt < 0 || points&(1<<uint(pt)) == 0 || bare {
				continue
			}
			tag := ""
			req := true
			if reqMode == 2 || (reqMode == 1 && nd.Bool()) {
				tag = ",required=false"
				req = false
			}
			e.required[i][pt] = req
			m.SetProperties(component_definition.NewProperty(fld, component_definition.PropertyTypeComponent, "wire", tag))
		}
		e.metas = append(e.metas, m)
	}
	proc := &vProc{env: e}
	e.f.postProcessorRegistrationDelegate.RegisterComponentPostProcessors(proc, "vProc")
	e.f.postProcessorRegistrationDelegate.RegisterComponentPostProcessors(&vProc0{env: e}, "vProc0")
	err := e.f.postProcessorRegistrationDelegate.InvokeBeanFactoryPostProcessors(e.f, nil)
	nd.Assert(err == nil, "processor registration ok")
	return e
}

func (e *vEnv) fieldOf(h *vNode, pt int) any {
	switch pt {
	case 0:
		return h.P0
	case 3:
		if h.T0 == nil {
			return nil
		}
		return h.T0
	}
	return h.P1
}

// checkIdentity: C01/C03 oracle after a successful start.
func (e *vEnv) checkIdentity(prefix string) {
	pub := make([]any, e.n)
	for i, nd0 := range e.nodes {
		if !e.created(i) {
			continue
		}
		c1, err1 := e.f.GetComponentByName(nd0.name)
		c2, err2 := e.f.GetComponentByName(nd0.name)
		nd.Assert(err1 == nil && err2 == nil, prefix+": lookup by name succeeds after a successful start")
		nd.Assert(c1 == c2, prefix+": two lookups by name return the same object")
		pub[i] = c1
		if e.wrapNode != i {
			nd.Assert(c1 == e.raws[i], prefix+": an unwrapped component is published as the registered object")
		}
	}
	for hi := range e.nodes {
		if e.lookupMode && e.lookupOf[hi] >= 0 {
			nd.Cover("lookup from Init")
			nd.Assert(e.lookupGot[hi] == pub[e.lookupOf[hi]], prefix+": a lookup issued from an Init callback returns the instance that is finally published")
		}
	}
	for hi, h := range e.nodes {
		if !e.created(hi) {
			continue
		}
		for pt := 0; pt < 2; pt++ {
			if !e.chosen[hi][pt] {
				continue
			}
			tg := e.choice[hi][pt]
			fld := e.fieldOf(h, pt)
			if len(tg) == 1 && tg[0] != hi {
				nd.Assert(fld == pub[tg[0]], prefix+": single-valued point holds the published instance of its target")
			} else {
				nd.Assert(fld == nil, prefix+": a point without a non-self candidate stays empty")
			}
		}
		if e.chosen[hi][2] {
			var want []int
			for _, t := range e.choice[hi][2] {
				if t != hi {
					want = append(want, t)
				}
			}
			nd.Assert(len(h.S0) == len(want), prefix+": slice point holds exactly its non-self targets")
			if len(h.S0) == len(want) {
				for k, t := range want {
					nd.Assert(h.S0[k] == pub[t], prefix+": slice element is the published instance of its target")
				}
			}
		}
	}
}

// created: did node i go through creation (there is a config event for it)?
func (e *vEnv) created(i int) bool {
	for _, ev := range e.log {
		if ev.kind == evConfig && ev.node == i {
			return true
		}
	}
	return false
}

func (e *vEnv) count(kind, node int) int {
	c := 0
	for _, ev := range e.log {
		if ev.kind == kind && ev.node == node {
			c++
		}
	}
	return c
}

func (e *vEnv) at(kind, node int) int {
	for i, ev := range e.log {
		if ev.kind == kind && ev.node == node {
			return i
		}
	}
	return -1
}

// reach[u][v]: v reachable from u through chosen non-self edges (u != v allowed to be equal via cycle)
func (e *vEnv) reach() [][]bool {
	r := make([][]bool, e.n)
	for i := range r {
		r[i] = make([]bool, e.n)
		for pt := 0; pt < 3; pt++ {
			for _, t := range e.choice[i][pt] {
				if t != i {
					r[i][t] = true
				}
			}
		}
	}
	for i := 0; i < e.n; i++ {
		if e.lookupMode && e.lookupOf[i] >= 0 && e.lookupOf[i] != i {
			r[i][e.lookupOf[i]] = true
		}
	}
	for k := 0; k < e.n; k++ {
		for i := 0; i < e.n; i++ {
			for j := 0; j < e.n; j++ {
				if r[i][k] && r[k][j] {
					r[i][j] = true
				}
			}
		}
	}
	return r
}

// ---------------------------------------------------------------------------
// C01: one shared instance per component
// ---------------------------------------------------------------------------

func VerifC01() {
	n := nd.Param("N", 2)
	e := newMC(n, nd.Param("POINTS", 5), false, nd.Param("REQ", 2), 0)
	e.lookupMode = nd.Param("LOOKUP", 0) == 1
	err := e.f.Refresh()
	e.observe(err)
	if err != nil {
		nd.Cover("start failed")
		nd.Assert(e.badPoint, "C02: start-up fails only when a required point can only be satisfied by its own holder")
		return
	}
	nd.Cover("start ok")
	if len(e.earlyServed) > 0 {
		nd.Cover("early reference served")
	}
	e.checkIdentity("C01")
	for i := range e.nodes {
		nd.Assert(e.count(evInit, i) == 1, "C01: initialised exactly once")
		nd.Assert(e.count(evEarly, i) <= 1, "C04: early-reference factory ran at most once")
	}
	all, err := e.f.GetComponents()
	nd.Assert(err == nil && len(all) == n, "C01: GetComponents returns every component once")
}

// ---------------------------------------------------------------------------
// C02: cycles resolve, start-up terminates (unwinding assertion = step budget)
// ---------------------------------------------------------------------------

func VerifC02() {
	n := nd.Param("N", 2)
	e := newMC(n, nd.Param("POINTS", 5), false, 1, 0)
	err := e.f.Refresh()
	e.observe(err)
	if err != nil {
		nd.Cover("start failed")
		nd.Assert(e.badPoint, "C02: start-up fails only when a required point can only be satisfied by its own holder")
		return
	}
	nd.Cover("start ok")
	nd.Assert(!e.badPoint, "C02: a required point that only its own holder could satisfy is reported as an error")
	e.checkIdentity("C02")
	for hi, h := range e.nodes {
		nd.Assert(h.P0 != any(h) && h.P1 != any(h), "C02: a field is never wired to its own holder")
		for _, el := range h.S0 {
			nd.Assert(el != any(h), "C02: a slice never contains its own holder")
		}
		_ = hi
	}
}

// ---------------------------------------------------------------------------
// C03: no stale version under substitution
// ---------------------------------------------------------------------------

func VerifC03() {
	n := nd.Param("N", 2)
	e := newMC(n, nd.Param("POINTS", 1), false, 2, 0)
	e.wrapNode = nd.Choose(n)
	e.wrapEarly = nd.Bool()
	e.wrapAfter = nd.Bool()
	e.sameWrapper = nd.Bool()
	if !e.sameWrapper {
		e.equalContent = nd.Bool()
	}
	e.prewire = nd.Bool()
	e.nilEarly = nd.Bool()
	e.lookupMode = nd.Param("LOOKUP", 0) == 1
	if nd.Param("REPLACE", 0) == 1 && nd.Bool() {
		e.replaceNode = nd.Choose(n)
	}
	err := e.f.Refresh()
	if err != nil {
		nd.Cover("start failed")
		return
	}
	nd.Cover("start ok")
	if e.replacement != nil {
		nd.Cover("replaced before instantiation")
	}
	if len(e.wrappers) > 0 {
		nd.Cover("wrapped")
	}
	if e.prewired {
		nd.Cover("a point wired by hand with the component itself")
	}
	if e.nilEarlyUsed {
		nd.Cover("early-reference callback answered nil")
	}
	selfKnown := false
	if len(e.wrappers) > 1 {
		// finding class: a component that holds itself through an early proxy and is wrapped again afterwards
		w := e.nodes[e.wrapNode]
		selfRef := false
		for pt := 0; pt < 3; pt++ {
			for _, t := range e.choice[e.wrapNode][pt] {
				if t == e.wrapNode {
					selfRef = true
				}
			}
		}
		_ = w
		selfKnown = nd.Known("C03/self-reference-early-proxy", selfRef)
	}
	_ = selfKnown
	e.checkIdentityWrapped()
}

// with wrapping, a self-edge is not "self" for the raw object once a proxy stands for it:
// the oracle is only that whatever a field holds for target t is pub(t).
func (e *vEnv) checkIdentityWrapped() {
	pub := make([]any, e.n)
	for i, nd0 := range e.nodes {
		c1, err1 := e.f.GetComponentByName(nd0.name)
		nd.Assert(err1 == nil, "C03: lookup by name succeeds after a successful start")
		pub[i] = c1
	}
	// a self-naming component is registered under its own name only: asking for it under its type id
	// finds nothing - in particular it never creates a second version of the singleton
	for i := range e.nodes {
		c2, err2 := e.f.GetComponentByName(reflectx.Id(e.raws[i]))
		known := false
		for j := range pub {
			if c2 == pub[j] {
				known = true
			}
		}
		nd.Assert(err2 != nil || known, "C01: a lookup under another name never yields a second version of a singleton")
	}
	all, errAll := e.f.GetComponents()
	nd.Assert(errAll == nil && len(all) == e.n, "C01: the bulk lookup returns every component once")
	for _, c := range all {
		cnt := 0
		for i := range pub {
			if c == pub[i] {
				cnt++
			}
		}
		nd.Assert(cnt == 1, "C01: the bulk lookup returns the published version of every component")
	}
	for hi, h := range e.nodes {
		for _, pt := range []int{0, 1, 3} {
			tg := e.choice[hi][pt]
			fld := e.fieldOf(h, pt)
			if len(tg) == 1 && fld != nil {
				nd.Assert(fld == pub[tg[0]], "C03: every holder sees the finally published version")
			}
		}
		for _, el := range h.S0 {
			ok := false
			for _, t := range e.choice[hi][2] {
				if el == pub[t] {
					ok = true
				}
			}
			nd.Assert(ok, "C03: every slice element is a finally published version")
		}
	}
}

// ---------------------------------------------------------------------------
// C05: lifecycle order
// ---------------------------------------------------------------------------

func VerifC05() {
	n := nd.Param("N", 2)
	e := newMC(n, nd.Param("POINTS", 5), nd.Param("LAZY", 1) == 1, 2, 0)
	e.populatedBeforeChecks = true
	e.lookupMode = nd.Param("LOOKUP", 0) == 1
	e.userProcFalse = nd.Param("PROC0", 0) == 1
	err := e.f.Refresh()
	e.observe(err)
	// ordering constraints hold on whatever events exist
	for i := 0; i < n; i++ {
		c, b, a, in, af := e.at(evConfig, i), e.at(evBefore, i), e.at(evAPS, i), e.at(evInit, i), e.at(evAfter, i)
		if b >= 0 {
			nd.Assert(c >= 0 && c < b, "C05: configuration/injection before the before-initialization callback")
		}
		if a >= 0 {
			nd.Assert(b >= 0 && b < a, "C05: before-initialization callback precedes AfterPropertiesSet")
		}
		if in >= 0 {
			nd.Assert(a >= 0 && a < in, "C05: AfterPropertiesSet precedes Init")
		}
		if af >= 0 {
			nd.Assert(in >= 0 && in < af, "C05: Init precedes the after-initialization callback")
		}
		nd.Assert(e.count(evInit, i) <= 1 && e.count(evAPS, i) <= 1 && e.count(evBefore, i) <= 1 && e.count(evAfter, i) <= 1 && e.count(evConfig, i) <= 1, "C05: no lifecycle step runs twice")
	}
	if err != nil {
		nd.Cover("start failed")
		nd.Assert(e.badPoint, "C02: start-up fails only when a required point can only be satisfied by its own holder")
		return
	}
	nd.Cover("start ok")
	r := e.reach()
	for i := 0; i < n; i++ {
		needed := !e.lazy[i]
		for j := 0; j < n; j++ {
			if !e.lazy[j] && r[j][i] {
				needed = true
			}
		}
		if needed {
			nd.Assert(e.count(evInit, i) == 1 && e.count(evAPS, i) == 1 && e.count(evBefore, i) == 1 && e.count(evAfter, i) == 1, "C05: every needed component passes through its lifecycle exactly once")
		} else {
			nd.Cover("lazy component not needed")
			nd.Assert(!e.created(i) && e.count(evInit, i) == 0, "C05: a lazy component nobody needs is not initialised")
		}
	}
	// dependencies first: for every edge u -> v where u is not reachable from v
	for u := 0; u < n; u++ {
		if e.at(evInit, u) < 0 {
			continue
		}
		for pt := 0; pt < 3; pt++ {
			for _, v := range e.choice[u][pt] {
				if v == u || r[v][u] {
					continue
				}
				nd.Cover("acyclic edge")
				nd.Assert(e.at(evAfter, v) >= 0 && e.at(evAfter, v) < e.at(evInit, u), "C05: a dependency that does not depend back is fully initialised before its dependant's Init")
			}
		}
	}
}

// ---------------------------------------------------------------------------
// C09 (container part): a failing callback makes Refresh fail, never panic
// ---------------------------------------------------------------------------

func VerifC09MC() {
	n := nd.Param("N", 2)
	e := newMC(n, nd.Param("POINTS", 1), false, nd.Param("REQ", 2), nd.Param("FAULTS", 1))
	err := e.f.Refresh()
	e.observe(err)
	if len(e.faults) > 0 {
		nd.Cover("fault injected")
		nd.Assert(err != nil, "C09: a failing callback makes start-up return an error")
	} else {
		nd.Assert((err != nil) == e.badPoint, "C09: without a failing callback start-up fails only for an unsatisfiable required point")
	}
}

var _ container.SmartInstantiationAwareBeanPostProcessor = (*vProc)(nil)

// ---------------------------------------------------------------------------
// C04 tier B: lookups after a failed start / failed lazy creation never return
// a half-built instance as if it had been created
// ---------------------------------------------------------------------------

func (e *vEnv) lastAt(kind, node int) int {
	r := -1
	for i, ev := range e.log {
		if ev.kind == kind && ev.node == node {
			r = i
		}
	}
	return r
}

func VerifC04B() {
	n := nd.Param("N", 2)
	e := newMC(n, nd.Param("POINTS", 1), nd.Param("LAZY", 1) == 1, 2, nd.Param("FAULTS", 1))
	if nd.Param("PANICS", 0) == 1 {
		e.panicFaults = nd.Bool()
	}
	var err error
	if nd.Catch(func() { err = e.f.Refresh() }) {
		nd.Cover("a creation failed by panicking")
		err = errBoom
	}
	if err != nil {
		nd.Cover("start failed")
	}
	rounds := nd.Param("LOOKUPS", 2)
	for k := 0; k < rounds; k++ {
		i := nd.Choose(n)
		var c any
		var lerr error
		if nd.Catch(func() { c, lerr = e.f.GetComponentByName(e.nodes[i].name) }) {
			nd.Cover("a creation failed by panicking")
			continue
		}
		if lerr != nil {
			nd.Cover("lookup after failure reports an error")
			continue
		}
		nd.Assert(c != nil, "C04: a successful lookup returns a component")
		// the instance handed out has completed its lifecycle: its last creation attempt ran to the end
		nd.Assert(e.lastAt(evAfter, i) > e.lastAt(evConfig, i) && e.lastAt(evConfig, i) >= 0, "C04: a lookup never returns a half-built instance as if it had been created")
		nd.Assert(e.initOK[i], "C04: an instance handed out as created has run its Init successfully in that creation attempt")
		nd.Assert(!e.f.singletonComponentRegistry.IsSingletonCurrentlyInCreation(e.nodes[i].name), "C04: a published name is no longer reported as in creation")
		c2, _ := e.f.GetComponentByName(e.nodes[i].name)
		nd.Assert(c2 == c, "C04: once published, the same instance is returned")
	}
}

// ---------------------------------------------------------------------------
// C03/C04 retry histories with a substituting processor: a creation attempt fails
// (a callback of a solver-chosen component fails once), the application looks the
// components up again, the attempt is repeated.  Whatever ends up published must be
// what every PUBLISHED holder sees - also holders that were created and published
// inside the attempt that failed.
// ---------------------------------------------------------------------------

func VerifC03Retry() {
	n := nd.Param("N", 2)
	e := newMC(n, nd.Param("POINTS", 1), nd.Param("LAZY", 1) == 1, 2, nd.Param("FAULTS", 1))
	e.wrapNode = nd.Choose(n)
	e.wrapEarly = nd.Bool()
	e.wrapAfter = nd.Bool()
	e.sameWrapper = nd.Bool()
	err := e.f.Refresh()
	if err != nil {
		nd.Cover("start failed")
	} else {
		nd.Cover("start ok")
	}
	rounds := nd.Param("LOOKUPS", 2)
	for k := 0; k < rounds; k++ {
		i := nd.Choose(n)
		if _, lerr := e.f.GetComponentByName(e.nodes[i].name); lerr != nil {
			nd.Cover("lookup after failure reports an error")
		}
	}
	pub := make([]any, n)
	isPub := make([]bool, n)
	for i := range e.nodes {
		// only what is published already: the oracle itself must not start creations
		if m, gerr := e.f.singletonComponentRegistry.GetSingleton(e.nodes[i].name, false); gerr == nil && m != nil && !e.f.singletonComponentRegistry.IsSingletonCurrentlyInCreation(e.nodes[i].name) {
			c1, err1 := e.f.GetComponentByName(e.nodes[i].name)
			nd.Assert(err1 == nil && c1 == m.Raw, "C04: once published, the same instance is returned")
			pub[i], isPub[i] = c1, true
		}
	}
	if len(e.faults) > 0 {
		nd.Cover("fault injected")
	}
	for hi, h := range e.nodes {
		if !isPub[hi] {
			continue
		}
		for _, pt := range []int{0, 1} {
			tg := e.choice[hi][pt]
			fld := e.fieldOf(h, pt)
			if len(tg) != 1 || fld == nil || !isPub[tg[0]] {
				continue
			}
			t := tg[0]
			if len(e.wrappers) > 0 {
				nd.Cover("wrapped")
			}
			if e.count(evConfig, t) >= 2 {
				nd.Cover("target published by a repeated attempt")
			}
			// finding class: the holder was completed inside an attempt of its target that failed later
			nd.Known("C03/holder-published-inside-a-failed-attempt", e.count(evConfig, t) >= 2 && e.lastAt(evAfter, hi) < e.lastAt(evConfig, t) && hi != t)
			nd.Assert(fld == pub[t], "C03: after a repeated creation attempt every published holder sees the published version")
		}
		for _, el := range h.S0 {
			ok := false
			for _, t := range e.choice[hi][2] {
				if el == pub[t] || !isPub[t] {
					ok = true
				}
			}
			nd.Assert(ok, "C03: after a repeated creation attempt every slice element is a published version")
		}
	}
}

// ---------------------------------------------------------------------------
// C10 (creation order): the same component set is started twice in one path, once
// with the registries enumerating in insertion order and once under a symbolic
// permutation of registration and enumeration order; success and wiring must agree.
// ---------------------------------------------------------------------------

type vSnap struct {
	ok     bool
	fields [][4][]int // per node and point: for every held object (target index*4 + version), version 0 = raw, 1.. = wrapper generation+1
}

func (e *vEnv) verOf(c any) int {
	v := vNodeOf(c)
	if v == nil {
		return -1
	}
	if w, ok := c.(*vWrap); ok {
		return v.idx*4 + 1 + w.gen
	}
	return v.idx * 4
}

func vStartFixed(n, points int, graph [][4][]int, wrapNode int, wrapEarly, wrapAfter, same bool, order []int) vSnap {
	e := &vEnv{n: n, points: points, wrapNode: wrapNode, wrapEarly: wrapEarly, wrapAfter: wrapAfter, sameWrapper: same, fixed: graph, replaceNode: -1}
	e.f = &defaultFactory{
		definitionRegistry:                support.DefaultDefinitionRegistry(),
		singletonComponentRegistry:        support.DefaultSingletonComponentRegistry(),
		postProcessorRegistrationDelegate: NewPostProcessorRegistrationDelegate(),
		allowCircularReferences:           true,
	}
	e.chosen = make([][4]bool, n)
	e.choice = make([][4][]int, n)
	e.required = make([][4]bool, n)
	e.nodes = make([]*vNode, n)
	e.raws = make([]any, n)
	e.metas = make([]*component_definition.Meta, n)
	e.lazy = make([]bool, n)
	for _, i := range order {
		node := &vNode{name: vNames[i], idx: i, env: e}
		e.nodes[i], e.raws[i] = node, node
		m := e.f.definitionRegistry.GetMetaOrRegister(node.name, node)
		for _, fld := range m.Fields {
			pt := pointIndex(fld.StructField.Name)
			if pt < 0 || points&(1<<uint(pt)) == 0 {
				continue
			}
			m.SetProperties(component_definition.NewProperty(fld, component_definition.PropertyTypeComponent, "wire", ",required=false"))
		}
		e.metas[i] = m
	}
	proc := &vProc{env: e}
	e.f.postProcessorRegistrationDelegate.RegisterComponentPostProcessors(proc, "vProc")
	err := e.f.postProcessorRegistrationDelegate.InvokeBeanFactoryPostProcessors(e.f, nil)
	nd.Assert(err == nil, "processor registration ok")
	s := vSnap{ok: e.f.Refresh() == nil}
	if !s.ok {
		return s
	}
	s.fields = make([][4][]int, n)
	for i, h := range e.nodes {
		if h.P0 != nil {
			s.fields[i][0] = []int{e.verOf(h.P0)}
		}
		if h.P1 != nil {
			s.fields[i][1] = []int{e.verOf(h.P1)}
		}
		for _, el := range h.S0 {
			s.fields[i][2] = append(s.fields[i][2], e.verOf(el))
		}
	}
	return s
}

func VerifC10MC() {
	n := nd.Param("N", 2)
	points := nd.Param("POINTS", 5)
	graph := make([][4][]int, n)
	for i := 0; i < n; i++ {
		for pt := 0; pt < 3; pt++ {
			if points&(1<<uint(pt)) == 0 {
				continue
			}
			if pt < 2 {
				if k := nd.Choose(n + 1); k < n {
					graph[i][pt] = []int{k}
				}
			} else {
				for j := 0; j < n; j++ {
					if nd.Bool() {
						graph[i][pt] = append(graph[i][pt], j)
					}
				}
			}
		}
	}
	wrapNode := nd.Choose(n)
	wrapEarly, wrapAfter, same := nd.Bool(), nd.Bool(), nd.Bool()
	canon := make([]int, n)
	for i := range canon {
		canon[i] = i
	}
	nd.PermuteRange(false)
	a := vStartFixed(n, points, graph, wrapNode, wrapEarly, wrapAfter, same, canon)
	nd.PermuteRange(true)
	b := vStartFixed(n, points, graph, wrapNode, wrapEarly, wrapAfter, same, nd.Perm(n))
	nd.Assert(a.ok == b.ok, "C10: whether start-up succeeds does not depend on registration or enumeration order")
	if !a.ok || !b.ok {
		nd.Cover("start failed")
		return
	}
	nd.Cover("start ok")
	for i := 0; i < n; i++ {
		for pt := 0; pt < 3; pt++ {
			nd.Assert(len(a.fields[i][pt]) == len(b.fields[i][pt]), "C10: every injection point receives the same components under every order")
			if len(a.fields[i][pt]) != len(b.fields[i][pt]) {
				continue
			}
			if pt < 2 {
				for k := range a.fields[i][pt] {
					nd.Assert(a.fields[i][pt][k] == b.fields[i][pt][k], "C10: every injection point receives the same components under every order")
				}
			} else {
				for _, x := range a.fields[i][pt] {
					in := false
					for _, y := range b.fields[i][pt] {
						if x == y {
							in = true
						}
					}
					nd.Assert(in, "C10: every slice point receives the same set of components under every order")
				}
			}
		}
	}
}

// C02 with a long cycle: a ring of RING components linked by single points (one path)
func VerifC02Ring() {
	n := nd.Param("RING", 70)
	e := &vEnv{n: n, wrapNode: -1, replaceNode: -1}
	e.f = &defaultFactory{
		definitionRegistry:                support.DefaultDefinitionRegistry(),
		singletonComponentRegistry:        support.DefaultSingletonComponentRegistry(),
		postProcessorRegistrationDelegate: NewPostProcessorRegistrationDelegate(),
		allowCircularReferences:           true,
	}
	e.chosen = make([][4]bool, n)
	e.choice = make([][4][]int, n)
	e.required = make([][4]bool, n)
	e.lookupOf = make([]int, n)
	e.lookupGot = make([]any, n)
	e.initOK = make([]bool, n)
	e.lazy = make([]bool, n)
	e.fixed = make([][4][]int, n)
	for i := 0; i < n; i++ {
		e.lookupOf[i] = -1
		name := "n" + string([]byte{byte('0' + i/10), byte('0' + i%10)})
		node := &vNode{name: name, idx: i, env: e}
		e.nodes = append(e.nodes, node)
		e.raws = append(e.raws, node)
		m := e.f.definitionRegistry.GetMetaOrRegister(name, node)
		for _, fld := range m.Fields {
			if fld.StructField.Name == "P0" {
				m.SetProperties(component_definition.NewProperty(fld, component_definition.PropertyTypeComponent, "wire", ""))
				e.required[i][0] = true
			}
		}
		e.metas = append(e.metas, m)
		e.fixed[i][0] = []int{(i + 1) % n}
	}
	e.f.postProcessorRegistrationDelegate.RegisterComponentPostProcessors(&vProc{env: e}, "vProc")
	nd.Assert(e.f.postProcessorRegistrationDelegate.InvokeBeanFactoryPostProcessors(e.f, nil) == nil, "processor registration ok")
	err := e.f.Refresh()
	nd.Assert(err == nil, "C02: a cycle of any length resolves")
	if err != nil {
		return
	}
	for i, h := range e.nodes {
		nd.Assert(h.P0 == any(e.nodes[(i+1)%n]), "C02: every required point of a long cycle holds its target")
		nd.Assert(e.count(evInit, i) == 1, "C05: every component of a long cycle is initialised exactly once")
	}
	nd.Cover("long cycle resolved")
}
