//go:build verif

package factory

import (
	"github.com/go-kid/ioc/component_definition"
	"github.com/go-kid/ioc/configure"
	"github.com/go-kid/ioc/container"
	"github.com/go-kid/ioc/container/processors"
	"github.com/go-kid/ioc/container/support"
	"github.com/go-kid/ioc/definition"
	"github.com/go-kid/ioc/syslog"
	"github.com/go-kid/ioc/zzverif/nd"
)

// ---------------------------------------------------------------------------
// SCAN harness (C11): NewMeta/scanFields, the real tag-scan processors (wire,
// func, value+prop, prefix, logger) and a custom-tag processor, then the real
// populateComponent.  The struct SHAPES are a fixed family written here (types
// are program text); symbolic are the initial contents of every field and the
// configured values.
// ---------------------------------------------------------------------------

// the tagged fields, once flat and once inside embedded structs
type VScanTagged struct {
	W vI1           `wire:""`
	V string        `value:"${k}"`
	P string        `prop:"k2"`
	X string        `prefix:"k3"`
	L syslog.Logger `logger:""`
	C string        `custom:"cv,carg=1 (2 3)"`
	// one field carrying a processor's own tag AND the tag its extract handler understands: the explicit value tag counts, once
	B string `value:"lit" prop:"k2"`
}

type vScanTaggedLower struct {
	W vI1           `wire:""`
	V string        `value:"${k}"`
	P string        `prop:"k2"`
	X string        `prefix:"k3"`
	L syslog.Logger `logger:""`
	C string        `custom:"cv,carg=1 (2 3)"`
	// one field carrying a processor's own tag AND the tag its extract handler understands: the explicit value tag counts, once
	B string `value:"lit" prop:"k2"`
}

// frame fields: never to be modified
type vFrame struct {
	u int    // unexported
	N int    // untagged
	J string `json:"j"`  // foreign tag
	w vI1    `wire:""`   // unexported but tagged
	s string `value:"x"` // unexported but tagged
}

type vShapeFlat struct {
	nm string
	vFrameFields
	W vI1           `wire:""`
	V string        `value:"${k}"`
	P string        `prop:"k2"`
	X string        `prefix:"k3"`
	L syslog.Logger `logger:""`
	C string        `custom:"cv,carg=1 (2 3)"`
	// one field carrying a processor's own tag AND the tag its extract handler understands: the explicit value tag counts, once
	B string `value:"lit" prop:"k2"`
}

// vFrameFields is embedded by value in every shape; its own fields are frame fields
type vFrameFields struct {
	u int
	N int
	J string `json:"j"`
	w vI1    `wire:""`
	s string `value:"x"`
	// foreign tag keys that merely end in a recognised key
	DV string `db_value:"zz"`
	HW vI1    `hardwire:""`
	NC string `nocustom:"q"`
}

type vShapeE1 struct { // exported embedded struct, depth 1
	nm string
	vFrameFields
	VScanTagged
}
type VMid1 struct{ VScanTagged }
type vShapeE2 struct { // depth 2
	nm string
	vFrameFields
	VMid1
}
type VMid2 struct{ VMid1 }
type vShapeE3 struct { // depth 3
	nm string
	vFrameFields
	VMid2
}
type vShapeLower struct { // embedded struct whose type name is unexported; its fields are exported
	nm string
	vFrameFields
	vScanTaggedLower
}
type vmidLower struct{ VScanTagged }
type vShapeLower2 struct { // unexported link in the middle of the chain
	nm string
	vFrameFields
	vmidLower
}
type vShapeTaggedEmbed struct { // an embedded struct that itself carries a tag is a field, not a container
	nm string
	vFrameFields
	VScanTagged `custom:"zz"`
}
type vShapeInlineEmbed struct { // an embedded struct with a foreign (serialization) tag is a field, not a container
	nm string
	vFrameFields
	VScanTagged `yaml:",inline"`
}

func (h *vShapeInlineEmbed) Naming() string { return h.nm }

type vShapePtrEmbed struct { // embedded pointer-to-struct is not looked into
	nm string
	vFrameFields
	*VScanTagged
}

// the same struct type embedded twice under one parent (through aliases): both copies are components of the shape
type vAliasA = VScanTagged
type vAliasB = VScanTagged
type vShapeTwice struct {
	nm string
	vFrameFields
	vAliasA
	vAliasB
}

// an embedded by-value struct whose type declares a configuration prefix is still a container of fields
type VPrefixed struct{ VScanTagged }

func (p *VPrefixed) Prefix() string { return "pfx" }

type vShapePrefixedEmbed struct {
	nm string
	vFrameFields
	VPrefixed
}

func (h *vShapePrefixedEmbed) Naming() string { return h.nm }
func (h *vShapeTwice) Naming() string       { return h.nm }
func (h *vShapeFlat) Naming() string        { return h.nm }
func (h *vShapeE1) Naming() string          { return h.nm }
func (h *vShapeE2) Naming() string          { return h.nm }
func (h *vShapeE3) Naming() string          { return h.nm }
func (h *vShapeLower) Naming() string       { return h.nm }
func (h *vShapeLower2) Naming() string      { return h.nm }
func (h *vShapeTaggedEmbed) Naming() string { return h.nm }
func (h *vShapePtrEmbed) Naming() string    { return h.nm }

// custom tag processor: records what it receives
type vCustomProc struct {
	processors.DefaultTagScanDefinitionRegistryPostProcessor
	processors.DefaultInstantiationAwareComponentPostProcessor
	seen []string
}

func (p *vCustomProc) PostProcessAfterInstantiation(c any, n string) (bool, error) { return true, nil }
func (p *vCustomProc) PostProcessProperties(props []*component_definition.Property, c any, n string) ([]*component_definition.Property, error) {
	for _, pr := range props {
		if pr.Tag == "custom" {
			vals, _ := pr.Args().Find("carg")
			rec := pr.StructField.Name + "|" + pr.TagVal + "|" + pr.Args().String() + "|"
			for _, v := range vals {
				rec += "<" + v + ">"
			}
			p.seen = append(p.seen, rec)
		}
	}
	return nil, nil
}

type vScanCfg struct {
	configure.Configure
	k, k2, k3 string
}

func (c *vScanCfg) Get(path string) any {
	switch path {
	case "k":
		return c.k
	case "k2":
		return c.k2
	case "k3":
		return c.k3
	}
	return nil
}

type vScanFactory struct {
	container.Factory
	reg container.DefinitionRegistry
	cfg configure.Configure
}

func (s *vScanFactory) GetDefinitionRegistry() container.DefinitionRegistry { return s.reg }
func (s *vScanFactory) GetConfigure() configure.Configure                   { return s.cfg }

type vScanResult struct {
	ok      bool
	props   []string // name|tag|tagstr|type, sorted by field name
	custom  []string
	w       any
	v, p, x string
	l       bool
	lg      syslog.Logger
	nfields int           // fields the scan offers to the tag processors (their extract handlers see every one of them)
	lgWant  syslog.Logger // the component's own logger: the one syslog hands out for the component's name
	c       string
	frame   vFrameFields
	second  *VScanTagged // second copy of the tagged block (shape 8)
	taggedV VScanTagged
}

func vLetterStr(n int) string {
	s := nd.Bytes(n)
	for i := 0; i < len(s); i++ {
		nd.Assume(s[i] >= 'g' && s[i] <= 'z')
	}
	return s
}

// vRunShape starts a container holding one provider and a holder of the given shape.
func vRunShape(shape int, fr vFrameFields, init VScanTagged, cfg *vScanCfg, prov *vPA) vScanResult {
	f := &defaultFactory{
		definitionRegistry:                support.DefaultDefinitionRegistry(),
		singletonComponentRegistry:        support.DefaultSingletonComponentRegistry(),
		postProcessorRegistrationDelegate: NewPostProcessorRegistrationDelegate(),
		allowCircularReferences:           true,
	}
	sf := &vScanFactory{reg: f.definitionRegistry, cfg: cfg}
	custom := &vCustomProc{}
	custom.Tag = "custom"
	custom.NodeType = "Custom"
	procs := []any{
		processors.NewLoggerAwarePostProcessor(), processors.NewConfigQuoteAwarePostProcessors(), processors.NewPropertiesAwarePostProcessors(),
		processors.NewValueAwarePostProcessors(), processors.NewDependencyAwarePostProcessors(), processors.NewDependencyFurtherMatchingProcessors(),
		processors.NewDependencyFunctionAwarePostProcessors(), custom,
	}
	var scanners []container.DefinitionRegistryPostProcessor
	for _, p := range procs {
		if fp, ok := p.(container.ComponentFactoryPostProcessor); ok {
			nd.Assert(fp.PostProcessComponentFactory(sf) == nil, "factory post-processing ok")
		}
		if sc, ok := p.(container.DefinitionRegistryPostProcessor); ok {
			scanners = append(scanners, sc)
		}
		f.postProcessorRegistrationDelegate.RegisterComponentPostProcessors(p.(container.ComponentPostProcessor), "p")
	}
	nd.Assert(f.postProcessorRegistrationDelegate.InvokeBeanFactoryPostProcessors(f, nil) == nil, "processor registration ok")
	var h any
	var tagged func() VScanTagged
	var second func() VScanTagged
	var frame func() vFrameFields
	switch shape {
	case 0:
		x := &vShapeFlat{nm: "holder", vFrameFields: fr, W: init.W, V: init.V, P: init.P, X: init.X, L: init.L, C: init.C}
		h = x
		tagged = func() VScanTagged { return VScanTagged{W: x.W, V: x.V, P: x.P, X: x.X, L: x.L, C: x.C, B: x.B} }
		frame = func() vFrameFields { return x.vFrameFields }
	case 1:
		x := &vShapeE1{nm: "holder", vFrameFields: fr, VScanTagged: init}
		h = x
		tagged = func() VScanTagged { return x.VScanTagged }
		frame = func() vFrameFields { return x.vFrameFields }
	case 2:
		x := &vShapeE2{nm: "holder", vFrameFields: fr, VMid1: VMid1{init}}
		h = x
		tagged = func() VScanTagged { return x.VScanTagged }
		frame = func() vFrameFields { return x.vFrameFields }
	case 3:
		x := &vShapeE3{nm: "holder", vFrameFields: fr, VMid2: VMid2{VMid1{init}}}
		h = x
		tagged = func() VScanTagged { return x.VScanTagged }
		frame = func() vFrameFields { return x.vFrameFields }
	case 4:
		x := &vShapeLower{nm: "holder", vFrameFields: fr, vScanTaggedLower: vScanTaggedLower(init)}
		h = x
		tagged = func() VScanTagged { return VScanTagged(x.vScanTaggedLower) }
		frame = func() vFrameFields { return x.vFrameFields }
	case 5:
		x := &vShapeLower2{nm: "holder", vFrameFields: fr, vmidLower: vmidLower{init}}
		h = x
		tagged = func() VScanTagged { return x.VScanTagged }
		frame = func() vFrameFields { return x.vFrameFields }
	case 6:
		x := &vShapeTaggedEmbed{nm: "holder", vFrameFields: fr, VScanTagged: init}
		h = x
		tagged = func() VScanTagged { return x.VScanTagged }
		frame = func() vFrameFields { return x.vFrameFields }
	case 10:
		x := &vShapeInlineEmbed{nm: "holder", vFrameFields: fr, VScanTagged: init}
		h = x
		tagged = func() VScanTagged { return x.VScanTagged }
		frame = func() vFrameFields { return x.vFrameFields }
	case 11:
		// two DIFFERENT struct types that print the same (function-local types with one name):
		// an empty marker mixin is scanned first (on another component), then the tagged block
		var other any
		h, other, tagged, frame = vSameNameShapes(fr, init)
		for _, sc := range scanners {
			nd.Assert(sc.PostProcessDefinitionRegistry(f.definitionRegistry, other, "other") == nil, "scan ok")
		}
	case 12:
		x := &vShapePrefixedEmbed{nm: "holder", vFrameFields: fr, VPrefixed: VPrefixed{init}}
		h = x
		tagged = func() VScanTagged { return x.VScanTagged }
		frame = func() vFrameFields { return x.vFrameFields }
		nd.Cover("embedded struct declaring a configuration prefix")
	case 8:
		x := &vShapeTwice{nm: "holder", vFrameFields: fr, vAliasA: init, vAliasB: init}
		h = x
		tagged = func() VScanTagged { return x.vAliasA }
		frame = func() vFrameFields { return x.vFrameFields }
		second = func() VScanTagged { return x.vAliasB }
	default:
		in := init
		x := &vShapePtrEmbed{nm: "holder", vFrameFields: fr, VScanTagged: &in}
		h = x
		tagged = func() VScanTagged { return *x.VScanTagged }
		frame = func() vFrameFields { return x.vFrameFields }
	}
	for _, c := range []any{prov, h} {
		name := "prov"
		if c == h {
			name = "holder"
		}
		for _, sc := range scanners {
			nd.Assert(sc.PostProcessDefinitionRegistry(f.definitionRegistry, c, name) == nil, "scan ok")
		}
	}
	res := vScanResult{}
	hm := f.definitionRegistry.GetMetaByName("holder")
	// the property list, in a canonical order (by field name, then tag)
	names := []string{"B", "C", "L", "P", "V", "W", "X", "VScanTagged"}
	for _, n := range names {
		for _, grp := range []component_definition.PropertyType{component_definition.PropertyTypeComponent, component_definition.PropertyTypeConfiguration, "Logger", "Custom"} {
			for _, pr := range hm.GetProperties(grp) {
				if pr.StructField.Name == n {
					res.props = append(res.props, n+"|"+pr.Tag+"|"+pr.TagStr+"|"+string(pr.PropertyType)+"|"+pr.Args().String())
				}
			}
		}
	}
	_, err := f.doGetComponent("holder")
	res.ok = err == nil
	res.custom = custom.seen
	t := tagged()
	res.taggedV = t
	res.w, res.v, res.p, res.x, res.l, res.c = t.W, t.V, t.P, t.X, t.L != nil, t.C
	res.lg = t.L
	res.nfields = len(hm.Fields)
	res.lgWant = syslog.Pref(hm.String())
	res.frame = frame()
	if second != nil {
		t2 := second()
		res.second = &t2
	}
	return res
}

func VerifC11() {
	shapes := []int{1, 2, 3, 4, 5, 6, 9, 8, 10, 11, 12}
	shape := shapes[nd.Choose(nd.Param("SHAPES", len(shapes)))]
	// symbolic initial contents of every frame field and of the tagged string fields
	fr := vFrameFields{u: int(nd.Int64()), N: int(nd.Int64()), J: nd.Bytes(1), s: nd.Bytes(1), DV: nd.Bytes(1), NC: "nc"}
	init := VScanTagged{V: nd.Bytes(1), P: nd.Bytes(1), X: nd.Bytes(1), C: nd.Bytes(1)}
	cfg := &vScanCfg{k: vLetterStr(1), k2: vLetterStr(1), k3: vLetterStr(1)}
	provA, provB := &vPA{vAttr{id: 1, nm: "prov"}}, &vPA{vAttr{id: 1, nm: "prov"}}
	flat := vRunShape(0, fr, init, cfg, provA)
	got := vRunShape(shape, fr, init, cfg, provB)
	nd.Assert(flat.ok, "C11: the flat shape starts")
	nd.Assert(flat.w == any(provA) && flat.v == cfg.k && flat.p == cfg.k2 && flat.x == cfg.k3 && flat.l, "C11: every recognised tag of the flat shape is processed")
	nd.Assert(flat.c == init.C, "C11: a field with a custom tag is not modified by the container")
	for _, r := range []vScanResult{flat, got} {
		nb := 0
		for _, pr := range r.props {
			if len(pr) > 2 && pr[:2] == "B|" {
				nb++
				nd.Assert(len(pr) >= 8 && pr[:8] == "B|value|", "C11: a field carrying a processor's own tag is processed under that tag")
			}
		}
		if shape != 8 || r.second == nil {
			nd.Assert(nb <= 1, "C11: a tagged field yields one property per processor, also when the processor's extract handler would match it too")
		}
	}
	nd.Assert(flat.taggedV.B == "lit", "C11: the explicit value tag of a field decides what is bound")
	nd.Assert(len(flat.custom) == 1, "C11: the custom tag processor receives exactly the field carrying its tag")
	if len(flat.custom) == 1 {
		rec := flat.custom[0]
		nd.Assert(len(rec) >= 16 && rec[:5] == "C|cv|" && rec[len(rec)-11:] == "|<1><(2 3)>", "C11: the custom tag processor receives the tag's value and arguments (a bracketed group is one argument value)")
	}
	// frame condition, every shape
	for _, r := range []vScanResult{flat, got} {
		nd.Assert(r.frame.u == fr.u && r.frame.N == fr.N && r.frame.J == fr.J && r.frame.s == fr.s && r.frame.w == nil && r.frame.DV == fr.DV && r.frame.HW == nil && r.frame.NC == fr.NC, "C11: unexported, untagged and foreign-tagged fields are never modified")
	}
	nd.Assert(got.ok, "C11: the embedded shape starts")
	switch {
	case shape == 11:
		nd.Cover("same-named embedded types")
		nd.Assert(len(got.props) == len(flat.props), "C11: an embedded struct is looked through whatever other types share its printed name")
		nd.Assert(got.w == any(provB) && got.v == cfg.k && got.p == cfg.k2 && got.x == cfg.k3 && got.l, "C11: every recognised tag inside embedded structs is processed as on the flat shape")
	case shape == 8:
		nd.Cover("same type embedded twice")
		nd.Assert(len(got.props) == 2*len(flat.props), "C11: both embedded copies of a struct type are scanned")
		if len(got.props) == 2*len(flat.props) {
			for i := range flat.props {
				nd.Assert(got.props[2*i] == flat.props[i] && got.props[2*i+1] == flat.props[i], "C11: tag, value and arguments of a property do not depend on the embedding")
			}
		}
		for _, t := range []VScanTagged{got.taggedV, *got.second} {
			nd.Assert(t.W == any(provB) && t.V == cfg.k && t.P == cfg.k2 && t.X == cfg.k3 && t.L != nil && t.C == init.C, "C11: every recognised tag inside embedded structs is processed as on the flat shape")
		}
		nd.Assert(len(got.custom) == 2 && got.custom[0] == flat.custom[0] && got.custom[1] == flat.custom[0], "C11: the custom tag processor receives exactly the fields carrying its tag, with value and arguments")
	case shape <= 5 || shape == 12:
		nd.Cover("see-through embedding")
		// processed identically to the flat twin
		nd.Assert(len(got.props) == len(flat.props), "C11: the same properties are created for a field declared directly or inside embedded structs")
		if len(got.props) == len(flat.props) {
			for i := range got.props {
				nd.Assert(got.props[i] == flat.props[i], "C11: tag, value and arguments of a property do not depend on the embedding depth")
			}
		}
		nd.Assert(got.w == any(provB) && got.v == cfg.k && got.p == cfg.k2 && got.x == cfg.k3 && got.l, "C11: every recognised tag inside embedded structs is processed as on the flat shape")
		nd.Assert(got.nfields == flat.nfields, "C11: the tag processors are offered the same fields whether they are declared directly or inside embedded structs (a looked-through struct is not itself a field)")
		nd.Assert(flat.lg == flat.lgWant, "C11: a logger field without a prefix receives its component's logger")
		nd.Assert(got.lg == got.lgWant, "C11: a logger field receives its component's logger whether it is declared directly or inside embedded structs")
		nd.Assert(got.c == init.C, "C11: a field with a custom tag is not modified by the container")
		nd.Assert(len(got.custom) == 1 && got.custom[0] == flat.custom[0], "C11: the custom tag processor receives exactly the fields carrying its tag, with value and arguments")
	default:
		nd.Cover("opaque embedding")
		// a tagged embedded struct / an embedded pointer is not looked into: nothing inside is touched
		nd.Assert(got.taggedV.W == init.W && got.taggedV.V == init.V && got.taggedV.P == init.P && got.taggedV.X == init.X && got.taggedV.C == init.C && got.taggedV.L == nil, "C11: fields the scanner does not recognise are never modified")
	}
}

var _ definition.NamingComponent = (*vShapeFlat)(nil)

// vSameNameShapes: a component embedding an EMPTY struct type named vMix and a component embedding a
// different struct type also named vMix (both function-local) that carries the tagged block.
func vSameNameShapes(fr vFrameFields, init VScanTagged) (any, any, func() VScanTagged, func() vFrameFields) {
	other := vEmptyMixHolder()
	type vMix struct{ VScanTagged }
	type hold struct {
		nm string
		vFrameFields
		vMix
	}
	x := &hold{nm: "holder", vFrameFields: fr, vMix: vMix{init}}
	return x, other, func() VScanTagged { return x.VScanTagged }, func() vFrameFields { return x.vFrameFields }
}

func vEmptyMixHolder() any {
	type vMix struct{}
	type hold struct {
		nm string
		x  int
		vMix
	}
	return &hold{nm: "other", x: 1}
}
