//go:build verif

package factory

import (
	"github.com/go-kid/ioc/component_definition"
	"github.com/go-kid/ioc/container"
	"github.com/go-kid/ioc/container/processors"
	"github.com/go-kid/ioc/container/support"
	"github.com/go-kid/ioc/zzverif/nd"
)

// CONC harness (C20 b): the parallel definition-scanning phase.  The engine runs the
// goroutines of applyDefinitionRegistryPostProcessors under the adversarial-join
// discipline and checks every heap cell touched by two goroutines for a
// happens-before ordering (vector clocks over spawn / WaitGroup / Mutex / sync.Map).

type vFailScanner struct {
	failFor []bool // per component index
	seen    []int
	work    bool
}

func (s *vFailScanner) PostProcessDefinitionRegistry(reg container.DefinitionRegistry, component any, name string) error {
	if v := vNodeOf(component); v != nil && s.failFor[v.idx] {
		return errBoom
	}
	// a scanner that does not fail does what user scanners do: it files a property under the component's definition
	if v := vNodeOf(component); v != nil && s.work {
		m := reg.GetMetaOrRegister(name, component)
		m.SetProperties(component_definition.NewProperty(nil, component_definition.PropertyTypeConfiguration, "scan", name))
	}
	return nil
}

type vScanStubFactory struct {
	container.Factory
	reg   container.DefinitionRegistry
	comps map[string]any
	procs []container.DefinitionRegistryPostProcessor
}

func (s *vScanStubFactory) GetDefinitionRegistry() container.DefinitionRegistry { return s.reg }
func (s *vScanStubFactory) GetRegisteredComponents() map[string]any             { return s.comps }
func (s *vScanStubFactory) GetDefinitionRegistryPostProcessors() []container.DefinitionRegistryPostProcessor {
	return s.procs
}

// two components whose injection points carry the same tag text with an argument
type vTagShare struct {
	F vI1 `wire:",qualifier=zq"`
}

func VerifC20Scan() {
	n := nd.Param("N", 2)
	sf := &vScanStubFactory{reg: support.DefaultDefinitionRegistry(), comps: map[string]any{}}
	fs := &vFailScanner{work: nd.Param("WORK", 0) == 1}
	for i := 0; i < n; i++ {
		node := &vNode{name: vNames[i], idx: i}
		sf.comps[node.name] = node
		fs.failFor = append(fs.failFor, nd.Bool())
	}
	if nd.Param("SHARED", 0) == 1 {
		sf.comps["ts1"], sf.comps["ts2"] = &vTagShare{}, &vTagShare{}
	}
	// a real tag scanner first (it registers the metas concurrently), then the failing scanner
	sf.procs = []container.DefinitionRegistryPostProcessor{
		processors.NewDependencyAwarePostProcessors().(container.DefinitionRegistryPostProcessor),
		fs,
	}
	d := NewPostProcessorRegistrationDelegate()
	err := d.applyDefinitionRegistryPostProcessors(sf)
	fails := 0
	for _, f := range fs.failFor {
		if f {
			fails++
		}
	}
	nd.Assert((err != nil) == (fails > 0), "C09: a failing definition scanner makes start-up fail")
	if fails > 1 {
		nd.Cover("several scanners fail at the same time")
	}
	if nd.Param("SHARED", 0) == 1 {
		nd.Cover("components sharing a tag text scanned concurrently")
	}
	for i := 0; i < n; i++ {
		m := sf.reg.GetMetaByName(vNames[i])
		nd.Assert(m != nil, "C10: every component is registered whatever the schedule")
		if fs.work && m != nil {
			// what the caller does next: once the scanning phase has returned - also with an error - the
			// definitions are the caller's, no scanner is still writing to them
			nd.Observe("properties", len(m.GetAllProperties()))
		}
	}
}
