//go:build verif

package factory

import (
	"github.com/go-kid/ioc/component_definition"
	"github.com/go-kid/ioc/container"
	"github.com/go-kid/ioc/container/processors"
	"github.com/go-kid/ioc/container/support"
	"github.com/go-kid/ioc/zzverif/nd"
)

// ---------------------------------------------------------------------------
// RH "resolution" harness: the real dependencyAware, dependencyFunctionAware and
// dependencyFurtherMatching processors (ordered by the real SortOrderedComponents
// inside the real InvokeBeanFactoryPostProcessors), the real definition registry
// (sync.Map Range order is a symbolic permutation), the real tag scanner and the
// real populateComponent -> Property.Inject.
// ---------------------------------------------------------------------------

type vI1 interface{ M1() int }
type vI2 interface{ M2() int }

type vAttr struct {
	id   int
	nm   string
	q    string
	hasQ bool
}

// *vPA: implements vI1, exposes Hook() without result
type vPA struct{ vAttr }

func (p *vPA) M1() int           { return p.id }
func (p *vPA) Hook()             {}
func (p *vPA) Naming() string    { return p.nm }
func (p *vPA) Qualifier() string { return p.q }

// *vPB: same layout and a superset of vPA's interfaces ("merely similar" type); Hook() has a result
type vPB struct{ vAttr }

func (p *vPB) M1() int           { return p.id }
func (p *vPB) M2() int           { return p.id }
func (p *vPB) Hook() int         { return 0 }
func (p *vPB) Naming() string    { return p.nm }
func (p *vPB) Qualifier() string { return p.q }

// *vPC: implements vI2 only, no qualifier
type vPC struct{ vAttr }

func (p *vPC) M2() int        { return p.id }
func (p *vPC) Naming() string { return p.nm }

// *vPP: implements vI1, primary
type vPP struct{ vAttr }

func (p *vPP) M1() int           { return p.id }
func (p *vPP) Primary()          {}
func (p *vPP) Naming() string    { return p.nm }
func (p *vPP) Qualifier() string { return p.q }

const (
	tPA = iota
	tPB
	tPC
	tPP
	nProviderTypes
)

func vMake(t int, a vAttr) any {
	switch t {
	case tPA:
		return &vPA{a}
	case tPB:
		return &vPB{a}
	case tPC:
		return &vPC{a}
	}
	return &vPP{a}
}

func vAttrOf(c any) (vAttr, int) {
	switch p := c.(type) {
	case *vPA:
		return p.vAttr, tPA
	case *vPB:
		return p.vAttr, tPB
	case *vPC:
		return p.vAttr, tPC
	case *vPP:
		return p.vAttr, tPP
	}
	return vAttr{id: -1}, -1
}

// static facts about the provider types (the oracle's specification)
var vImplI1 = [nProviderTypes]bool{tPA: true, tPB: true, tPC: false, tPP: true}
var vIsPA = [nProviderTypes]bool{tPA: true}
var vHookNoResult = [nProviderTypes]bool{tPA: true}
var vHasQualifier = [nProviderTypes]bool{tPA: true, tPB: true, tPC: false, tPP: true}
var vIsPrimary = [nProviderTypes]bool{tPP: true}

// holders, one field kind each
type vHPtr struct {
	nm string
	F  *vPA `wire:""`
}
type vHIface struct {
	nm string
	F  vI1 `wire:""`
}
type vHPtrSlice struct {
	nm string
	F  []*vPA `wire:""`
}
type vHIfaceSlice struct {
	nm string
	F  []vI1 `wire:""`
}
type vHAny struct {
	nm string
	F  any `wire:""`
}
type vHFunc struct {
	nm string
	F  []any `func:"Hook"`
}

// a holder that is itself a candidate for its own field
type vHSelf struct {
	nm string
	F  vI1 `wire:""`
}

func (h *vHSelf) M1() int { return -1 }

type vHSelfSlice struct {
	nm string
	F  []vI1 `wire:""`
}

func (h *vHSelfSlice) M1() int { return -1 }

func (h *vHPtr) Naming() string        { return h.nm }
func (h *vHIface) Naming() string      { return h.nm }
func (h *vHPtrSlice) Naming() string   { return h.nm }
func (h *vHIfaceSlice) Naming() string { return h.nm }
func (h *vHAny) Naming() string        { return h.nm }
func (h *vHFunc) Naming() string       { return h.nm }
func (h *vHSelf) Naming() string       { return h.nm }
func (h *vHSelfSlice) Naming() string  { return h.nm }

const (
	kPtr = iota
	kIface
	kPtrSlice
	kIfaceSlice
	kAny
	kFunc
	kSelf
	kSelfSlice
	nKinds
)

type vStubFactory struct {
	container.Factory
	reg container.DefinitionRegistry
}

func (s *vStubFactory) GetDefinitionRegistry() container.DefinitionRegistry { return s.reg }

type vRH struct {
	f       *defaultFactory
	scanner []container.DefinitionRegistryPostProcessor
}

func newRH() *vRH {
	f := &defaultFactory{
		definitionRegistry:                support.DefaultDefinitionRegistry(),
		singletonComponentRegistry:        support.DefaultSingletonComponentRegistry(),
		postProcessorRegistrationDelegate: NewPostProcessorRegistrationDelegate(),
		allowCircularReferences:           true,
	}
	dep := processors.NewDependencyAwarePostProcessors()
	fn := processors.NewDependencyFunctionAwarePostProcessors()
	fm := processors.NewDependencyFurtherMatchingProcessors()
	sf := &vStubFactory{reg: f.definitionRegistry}
	for _, p := range []any{dep, fn} {
		err := p.(container.ComponentFactoryPostProcessor).PostProcessComponentFactory(sf)
		nd.Assert(err == nil, "factory post-processing ok")
	}
	// registration order of the three processors is arbitrary
	ps := []container.ComponentPostProcessor{dep, fn, fm}
	if nd.Bool() {
		ps = []container.ComponentPostProcessor{fm, fn, dep}
	}
	for _, p := range ps {
		f.postProcessorRegistrationDelegate.RegisterComponentPostProcessors(p, "p")
	}
	err := f.postProcessorRegistrationDelegate.InvokeBeanFactoryPostProcessors(f, nil)
	nd.Assert(err == nil, "processor registration ok")
	return &vRH{f: f, scanner: []container.DefinitionRegistryPostProcessor{dep.(container.DefinitionRegistryPostProcessor), fn.(container.DefinitionRegistryPostProcessor)}}
}

func (r *vRH) register(c any, name string) *component_definition.Meta {
	for _, s := range r.scanner {
		err := s.PostProcessDefinitionRegistry(r.f.definitionRegistry, c, name)
		nd.Assert(err == nil, "scan ok")
	}
	return r.f.definitionRegistry.GetMetaByName(name)
}

func vHolder(kind int) (any, func() any, func() []any) {
	switch kind {
	case kPtr:
		h := &vHPtr{nm: "holder"}
		return h, func() any {
			if h.F == nil {
				return nil
			}
			return h.F
		}, nil
	case kIface:
		h := &vHIface{nm: "holder"}
		return h, func() any {
			if h.F == nil {
				return nil
			}
			return h.F
		}, nil
	case kPtrSlice:
		h := &vHPtrSlice{nm: "holder"}
		return h, nil, func() []any {
			var o []any
			for _, e := range h.F {
				o = append(o, e)
			}
			return o
		}
	case kIfaceSlice:
		h := &vHIfaceSlice{nm: "holder"}
		return h, nil, func() []any {
			var o []any
			for _, e := range h.F {
				o = append(o, e)
			}
			return o
		}
	case kAny:
		h := &vHAny{nm: "holder"}
		return h, func() any { return h.F }, nil
	case kFunc:
		h := &vHFunc{nm: "holder"}
		return h, nil, func() []any { return h.F }
	case kSelf:
		h := &vHSelf{nm: "holder"}
		return h, func() any {
			if h.F == nil {
				return nil
			}
			return h.F
		}, nil
	}
	h := &vHSelfSlice{nm: "holder"}
	return h, nil, func() []any {
		var o []any
		for _, e := range h.F {
			o = append(o, e)
		}
		return o
	}
}

// compatible: the order-free specification of type-directed candidates
func vCompatible(kind, t int) bool {
	switch kind {
	case kPtr, kPtrSlice:
		return vIsPA[t]
	case kIface, kIfaceSlice, kSelf, kSelfSlice:
		return vImplI1[t]
	case kAny:
		return true
	case kFunc:
		return vHookNoResult[t]
	}
	return false
}

// providers: k instances with symbolic type; at most one unnamed instance per type
// (two unnamed components of one type share a default name and cannot both be registered).
func vProviders(k int, withQ bool) ([]any, []int) {
	var ps []any
	var ts []int
	unnamed := [nProviderTypes]bool{}
	for i := 0; i < k; i++ {
		t := nd.Choose(nProviderTypes)
		a := vAttr{id: i}
		if !unnamed[t] && nd.Bool() {
			unnamed[t] = true
		} else {
			a.nm = vNames[i]
		}
		if withQ {
			a.q = nd.Bytes(1)
		}
		ps = append(ps, vMake(t, a))
		ts = append(ts, t)
	}
	return ps, ts
}

func vProviderName(c any) string {
	a, t := vAttrOf(c)
	if a.nm != "" {
		return a.nm
	}
	return []string{"github.com/go-kid/ioc/container/factory/vPA", "github.com/go-kid/ioc/container/factory/vPB", "github.com/go-kid/ioc/container/factory/vPC", "github.com/go-kid/ioc/container/factory/vPP"}[t]
}

// ---------------------------------------------------------------------------
// C06: type-directed injection is sound and complete (order-free oracle; the
// registry's enumeration order is a symbolic permutation, so this is also the
// by-type part of C10)
// ---------------------------------------------------------------------------

func VerifC06() {
	k := nd.Param("K", 2)
	kind := nd.Choose(nKinds)
	optional := nd.Bool()
	r := newRH()
	ps, ts := vProviders(k, false)
	h, single, multi := vHolder(kind)
	// registration order: holder position is arbitrary
	hpos := nd.Choose(k + 1)
	var hm *component_definition.Meta
	for i := 0; i <= k; i++ {
		if i == hpos {
			hm = r.register(h, "holder")
		}
		if i < k {
			r.register(ps[i], vProviderName(ps[i]))
		}
	}
	tag := "wire"
	if kind == kFunc {
		tag = "func"
	}
	nprops := 0
	for _, pr := range hm.GetComponentProperties() {
		if pr.Tag == tag {
			nprops++
			if optional {
				pr.SetArg(component_definition.ArgRequired, "false")
			}
		}
	}
	nd.Assert(nprops == 1, "C11: the scanner registered exactly the tagged field")
	_, err := r.f.doGetComponent("holder")
	var expected []any
	for i, p := range ps {
		if vCompatible(kind, ts[i]) {
			expected = append(expected, p)
		}
	}
	if err != nil {
		nd.Cover("start failed")
		nd.Assert(len(expected) == 0 && !optional, "C06: start-up fails only when a required point has no compatible component")
		return
	}
	nd.Cover("start ok")
	if len(expected) == 0 {
		nd.Assert(optional, "C06: a required point without any compatible component is reported as an error")
	}
	if single != nil {
		got := single()
		if len(expected) == 0 {
			nd.Assert(got == nil, "C06: a point without compatible components stays empty")
			return
		}
		ok := false
		for _, e := range expected {
			if got == e {
				ok = true
			}
		}
		nd.Assert(ok, "C06: a single-valued point receives one of the compatible components")
		if len(expected) > 1 {
			nd.Cover("several candidates")
		}
		return
	}
	got := multi()
	nd.Assert(len(got) == len(expected), "C06: a slice point receives every compatible component exactly once")
	for _, e := range expected {
		c := 0
		for _, g := range got {
			if g == e {
				c++
			}
		}
		nd.Assert(c == 1, "C06: every compatible component appears exactly once in the slice")
	}
	for _, g := range got {
		nd.Assert(g != h, "C06: the holder itself is never an element of its own slice")
	}
}
