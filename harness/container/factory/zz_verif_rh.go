//go:build verif

package factory

import (
	"github.com/go-kid/ioc/component_definition"
	"github.com/go-kid/ioc/configure"
	"github.com/go-kid/ioc/container"
	"github.com/go-kid/ioc/container/processors"
	"github.com/go-kid/ioc/container/support"
	"github.com/go-kid/ioc/syslog"
	"github.com/go-kid/ioc/zzverif/nd"
	modela "github.com/go-kid/ioc/zzverif/pa/model"
	modelb "github.com/go-kid/ioc/zzverif/pb/model"
)

// ---------------------------------------------------------------------------
// RH "resolution" harness: the real dependencyAware, dependencyFunctionAware and
// dependencyFurtherMatching processors (ordered by the real SortOrderedComponents
// inside the real InvokeBeanFactoryPostProcessors), the real definition registry
// (sync.Map Range order is a symbolic permutation), the real tag scanner and the
// real populateComponent -> Property.Inject.
// ---------------------------------------------------------------------------

type vI1 interface{ M1() int }
type vI2 interface{ M2() int }

type vAttr struct {
	id   int
	nm   string
	q    string
	hasQ bool
}

// *vPA: implements vI1, exposes Hook() without result
type vPA struct{ vAttr }

func (p *vPA) M1() int           { return p.id }
func (p *vPA) Hook()             {}
func (p *vPA) Naming() string    { return p.nm }
func (p *vPA) Qualifier() string { return p.q }

// *vPB: same layout and a superset of vPA's interfaces ("merely similar" type); Hook() has a result
type vPB struct{ vAttr }

func (p *vPB) M1() int           { return p.id }
func (p *vPB) M2() int           { return p.id }
func (p *vPB) Hook() int         { return 0 }
func (p *vPB) Naming() string    { return p.nm }
func (p *vPB) Qualifier() string { return p.q }

// *vPC: implements vI2 only, no qualifier
type vPC struct{ vAttr }

func (p *vPC) M2() int        { return p.id }
func (p *vPC) Naming() string { return p.nm }

// *vPP: implements vI1, primary
type vPP struct{ vAttr }

func (p *vPP) M1() int           { return p.id }
func (p *vPP) Primary()          {}
func (p *vPP) Hook()             {}
func (p *vPP) Naming() string    { return p.nm }
func (p *vPP) Qualifier() string { return p.q }

// *vZA, *vZB: stateless (zero-sized) implementers of vI1; real Go gives all of them one address
type vZA struct{}

func (p *vZA) M1() int { return -2 }

type vZB struct{}

func (p *vZB) M1() int { return -3 }

const (
	tPA = iota
	tPB
	tPC
	tPP
	tZA
	tZB
	nProviderTypes
)

func vMake(t int, a vAttr) any {
	switch t {
	case tPA:
		return &vPA{a}
	case tPB:
		return &vPB{a}
	case tPC:
		return &vPC{a}
	case tZA:
		return &vZA{}
	case tZB:
		return &vZB{}
	}
	return &vPP{a}
}

func vAttrOf(c any) (vAttr, int) {
	switch p := c.(type) {
	case *vPA:
		return p.vAttr, tPA
	case *vPB:
		return p.vAttr, tPB
	case *vPC:
		return p.vAttr, tPC
	case *vPP:
		return p.vAttr, tPP
	case *vZA:
		return vAttr{id: -2}, tZA
	case *vZB:
		return vAttr{id: -3}, tZB
	}
	return vAttr{id: -1}, -1
}

// static facts about the provider types (the oracle's specification)
var vImplI1 = [nProviderTypes]bool{tPA: true, tPB: true, tPC: false, tPP: true, tZA: true, tZB: true}
var vIsPA = [nProviderTypes]bool{tPA: true}
var vHookNoResult = [nProviderTypes]bool{tPA: true, tPP: true}
var vHasQualifier = [nProviderTypes]bool{tPA: true, tPB: true, tPC: false, tPP: true}
var vIsPrimary = [nProviderTypes]bool{tPP: true}

// holders, one field kind each
type vHPtr struct {
	nm string
	F  *vPA `wire:""`
}
type vHIface struct {
	nm string
	F  vI1 `wire:""`
}
type vHPtrSlice struct {
	nm string
	F  []*vPA `wire:""`
}
type vHIfaceSlice struct {
	nm string
	F  []vI1 `wire:""`
}
type vHAny struct {
	nm string
	F  any `wire:""`
}
type vHFunc struct {
	nm string
	F  []any `func:"Hook"`
}

// a holder that is itself a candidate for its own field
type vHSelf struct {
	nm string
	F  vI1 `wire:""`
}

func (h *vHSelf) M1() int { return -1 }

type vHSelfSlice struct {
	nm string
	F  []vI1 `wire:""`
}

func (h *vHSelfSlice) M1() int { return -1 }

// the injection point sits in an embedded struct that is not the component's first field;
// the component itself implements the element type
type vHInner struct {
	F []vI1 `wire:""`
}
type vHEmbedded struct {
	nm string
	vHInner
}

func (h *vHEmbedded) M1() int        { return -1 }
func (h *vHEmbedded) Naming() string { return h.nm }

func (h *vHPtr) Naming() string        { return h.nm }
func (h *vHIface) Naming() string      { return h.nm }
func (h *vHPtrSlice) Naming() string   { return h.nm }
func (h *vHIfaceSlice) Naming() string { return h.nm }
func (h *vHAny) Naming() string        { return h.nm }
func (h *vHFunc) Naming() string       { return h.nm }
func (h *vHSelf) Naming() string       { return h.nm }
func (h *vHSelfSlice) Naming() string  { return h.nm }

const (
	kPtr = iota
	kIface
	kPtrSlice
	kIfaceSlice
	kAny
	kFunc
	kSelf
	kSelfSlice
	kEmbeddedSelfSlice
	nKinds
)

type vRHDecline struct {
	processors.DefaultInstantiationAwareComponentPostProcessor
}

func (p *vRHDecline) LazyInit()  {}
func (p *vRHDecline) Order() int { return -7 }
func (p *vRHDecline) PostProcessAfterInstantiation(c any, n string) (bool, error) {
	return nd.Bool(), nil
}

// a user processor with a transient fault: the first initialization of a component other than the
// holder fails once (when armed); every later call succeeds
type vRHFlaky struct {
	processors.DefaultInstantiationAwareComponentPostProcessor
	armed    bool
	fired    bool
	onHolder bool // the transient fault hits the holder's own initialization (after it was populated)
}

func (p *vRHFlaky) LazyInit()  {}
func (p *vRHFlaky) Order() int { return 9 }
func (p *vRHFlaky) PostProcessBeforeInitialization(c any, n string) (any, error) {
	if p.armed && !p.fired && (n == "holder") == p.onHolder {
		p.fired = true
		return nil, errBoom
	}
	return c, nil
}

type vStubFactory struct {
	container.Factory
	reg container.DefinitionRegistry
	cfg configure.Configure
}

func (s *vStubFactory) GetDefinitionRegistry() container.DefinitionRegistry { return s.reg }
func (s *vStubFactory) GetConfigure() configure.Configure                   { return s.cfg }

type vRH struct {
	f       *defaultFactory
	scanner []container.DefinitionRegistryPostProcessor
	cfg     *vRHCfg
	flaky   *vRHFlaky
}

func newRH() *vRH { return newRHOrder(nd.Param("PORDER", 1) == 1) }

func newRHOrder(orderMix bool) *vRH {
	f := &defaultFactory{
		definitionRegistry:                support.DefaultDefinitionRegistry(),
		singletonComponentRegistry:        support.DefaultSingletonComponentRegistry(),
		postProcessorRegistrationDelegate: NewPostProcessorRegistrationDelegate(),
		allowCircularReferences:           true,
	}
	dep := processors.NewDependencyAwarePostProcessors()
	fn := processors.NewDependencyFunctionAwarePostProcessors()
	fm := processors.NewDependencyFurtherMatchingProcessors()
	cfg := &vRHCfg{}
	cq := processors.NewConfigQuoteAwarePostProcessors()
	sf := &vStubFactory{reg: f.definitionRegistry, cfg: cfg}
	for _, p := range []any{dep, fn, cq} {
		err := p.(container.ComponentFactoryPostProcessor).PostProcessComponentFactory(sf)
		nd.Assert(err == nil, "factory post-processing ok")
	}
	// registration order of the three processors is arbitrary
	ps := []container.ComponentPostProcessor{dep, fn, fm, cq}
	if nd.Param("PROC0", 0) == 1 {
		// an ordered user processor that runs first and may decline: that only skips ITS OWN PostProcessProperties
		ps = append(ps, &vRHDecline{})
	}
	if orderMix && nd.Bool() {
		ps = []container.ComponentPostProcessor{cq, fm, fn, dep}
	}
	if nd.Param("DUPPROC", 0) == 1 {
		// a second candidate-collecting processor (the library's own by-type collector) next to the default one:
		// every by-type candidate is nominated twice
		ta := processors.NewDependencyTypeAwarePostProcessors()
		nd.Assert(ta.(container.ComponentFactoryPostProcessor).PostProcessComponentFactory(sf) == nil, "factory post-processing ok")
		ps = append(ps, ta)
		nd.Cover("candidates nominated by two processors")
	}
	var flaky *vRHFlaky
	if nd.Param("FLAKY", 0) == 1 {
		flaky = &vRHFlaky{armed: nd.Bool()}
		if flaky.armed {
			flaky.onHolder = nd.Bool()
		}
		ps = append(ps, flaky)
	}
	for _, p := range ps {
		f.postProcessorRegistrationDelegate.RegisterComponentPostProcessors(p, "p")
	}
	err := f.postProcessorRegistrationDelegate.InvokeBeanFactoryPostProcessors(f, nil)
	nd.Assert(err == nil, "processor registration ok")
	return &vRH{f: f, cfg: cfg, flaky: flaky, scanner: []container.DefinitionRegistryPostProcessor{dep.(container.DefinitionRegistryPostProcessor), fn.(container.DefinitionRegistryPostProcessor)}}
}

func (r *vRH) register(c any, name string) *component_definition.Meta {
	for _, s := range r.scanner {
		err := s.PostProcessDefinitionRegistry(r.f.definitionRegistry, c, name)
		nd.Assert(err == nil, "scan ok")
	}
	return r.f.definitionRegistry.GetMetaByName(name)
}

func vHolder(kind int) (any, func() any, func() []any) {
	switch kind {
	case kPtr:
		h := &vHPtr{nm: "holder"}
		return h, func() any {
			if h.F == nil {
				return nil
			}
			return h.F
		}, nil
	case kIface:
		h := &vHIface{nm: "holder"}
		return h, func() any {
			if h.F == nil {
				return nil
			}
			return h.F
		}, nil
	case kPtrSlice:
		h := &vHPtrSlice{nm: "holder"}
		return h, nil, func() []any {
			var o []any
			for _, e := range h.F {
				o = append(o, e)
			}
			return o
		}
	case kIfaceSlice:
		h := &vHIfaceSlice{nm: "holder"}
		return h, nil, func() []any {
			var o []any
			for _, e := range h.F {
				o = append(o, e)
			}
			return o
		}
	case kAny:
		h := &vHAny{nm: "holder"}
		return h, func() any { return h.F }, nil
	case kFunc:
		h := &vHFunc{nm: "holder"}
		return h, nil, func() []any { return h.F }
	case kSelf:
		h := &vHSelf{nm: "holder"}
		return h, func() any {
			if h.F == nil {
				return nil
			}
			return h.F
		}, nil
	}
	if kind == kEmbeddedSelfSlice {
		h := &vHEmbedded{nm: "holder"}
		return h, nil, func() []any {
			var o []any
			for _, e := range h.F {
				o = append(o, e)
			}
			return o
		}
	}
	h := &vHSelfSlice{nm: "holder"}
	return h, nil, func() []any {
		var o []any
		for _, e := range h.F {
			o = append(o, e)
		}
		return o
	}
}

// compatible: the order-free specification of type-directed candidates
func vCompatible(kind, t int) bool {
	switch kind {
	case kPtr, kPtrSlice:
		return vIsPA[t]
	case kIface, kIfaceSlice, kSelf, kSelfSlice, kEmbeddedSelfSlice:
		return vImplI1[t]
	case kAny:
		return true
	case kFunc:
		return vHookNoResult[t]
	}
	return false
}

// providers: k instances with symbolic type; at most one unnamed instance per type
// (two unnamed components of one type share a default name and cannot both be registered).
func vProviders(k int, withQ bool) ([]any, []int) {
	return vProvidersOf(k, withQ, []int{tPA, tPB, tPC, tPP, tZA, tZB})
}

func vProvidersOf(k int, withQ bool, types []int) ([]any, []int) {
	var ps []any
	var ts []int
	unnamed := [nProviderTypes]bool{}
	for i := 0; i < k; i++ {
		t := types[nd.Choose(len(types))]
		a := vAttr{id: i}
		if t == tZA || t == tZB {
			nd.Assume(!unnamed[t])
			unnamed[t] = true
		} else if !unnamed[t] && nd.Bool() {
			unnamed[t] = true
		} else {
			a.nm = vNames[i]
		}
		if withQ {
			a.q = nd.Bytes(1)
		}
		ps = append(ps, vMake(t, a))
		ts = append(ts, t)
	}
	return ps, ts
}

func vProviderName(c any) string {
	a, t := vAttrOf(c)
	if a.nm != "" {
		return a.nm
	}
	return []string{"github.com/go-kid/ioc/container/factory/vPA", "github.com/go-kid/ioc/container/factory/vPB", "github.com/go-kid/ioc/container/factory/vPC", "github.com/go-kid/ioc/container/factory/vPP", "github.com/go-kid/ioc/container/factory/vZA", "github.com/go-kid/ioc/container/factory/vZB"}[t]
}

// ---------------------------------------------------------------------------
// C06: type-directed injection is sound and complete (order-free oracle; the
// registry's enumeration order is a symbolic permutation, so this is also the
// by-type part of C10)
// ---------------------------------------------------------------------------

func VerifC06() {
	k := nd.Param("K", 2)
	kind := nd.Choose(nKinds)
	optional := nd.Bool()
	r := newRH()
	ps, ts := vProviders(k, false)
	h, single, multi := vHolder(kind)
	var builtin *vPA
	if nd.Param("PRESET", 1) == 1 && nd.Bool() {
		// the application left something in the field before start-up (an object that is not a component)
		builtin = &vPA{vAttr{id: 99, nm: "builtin"}}
		switch x := h.(type) {
		case *vHPtrSlice:
			x.F = []*vPA{builtin}
			nd.Cover("slice field pre-populated before start-up")
		case *vHIfaceSlice:
			x.F = []vI1{builtin}
			nd.Cover("slice field pre-populated before start-up")
		}
	}
	// registration order: holder position is arbitrary
	hpos := nd.Choose(k + 1)
	var hm *component_definition.Meta
	for i := 0; i <= k; i++ {
		if i == hpos {
			hm = r.register(h, "holder")
		}
		if i < k {
			r.register(ps[i], vProviderName(ps[i]))
		}
	}
	tag := "wire"
	if kind == kFunc {
		tag = "func"
	}
	nprops := 0
	for _, pr := range hm.GetComponentProperties() {
		if pr.Tag == tag {
			nprops++
			if optional {
				pr.SetArg(component_definition.ArgRequired, "false")
			}
		}
	}
	nd.Assert(nprops == 1, "C11: the scanner registered exactly the tagged field")
	_, err := r.f.doGetComponent("holder")
	if err != nil && r.flaky != nil && r.flaky.fired {
		// the first attempt hit the transient fault: nothing of it stays visible, the re-attempt starts from scratch
		nd.Cover("creation re-attempted after a transient failure")
		_, err = r.f.doGetComponent("holder")
		nd.Assert(err == nil, "C04: after a failed creation a later lookup re-attempts it")
	}
	var expected []any
	for i, p := range ps {
		if vCompatible(kind, ts[i]) {
			expected = append(expected, p)
		}
	}
	if err != nil {
		nd.Cover("start failed")
		nd.Assert(len(expected) == 0 && !optional, "C06: start-up fails only when a required point has no compatible component")
		return
	}
	nd.Cover("start ok")
	if len(expected) == 0 {
		nd.Assert(optional, "C06: a required point without any compatible component is reported as an error")
	}
	if single != nil {
		got := single()
		if len(expected) == 0 {
			nd.Assert(got == nil, "C06: a point without compatible components stays empty")
			return
		}
		ok := false
		for _, e := range expected {
			if got == e {
				ok = true
			}
		}
		nd.Assert(ok, "C06: a single-valued point receives one of the compatible components")
		if len(expected) > 1 {
			nd.Cover("several candidates")
		}
		return
	}
	got := multi()
	if len(expected) == 0 && builtin != nil && len(got) == 1 && got[0] == any(builtin) {
		// an optional point that cannot be satisfied is left untouched (what the application put there stays)
		return
	}
	nd.Assert(len(got) == len(expected), "C06: a slice point receives every compatible component exactly once")
	for _, e := range expected {
		c := 0
		for _, g := range got {
			if g == e {
				c++
			}
		}
		nd.Assert(c == 1, "C06: every compatible component appears exactly once in the slice")
	}
	for _, g := range got {
		nd.Assert(g != h, "C06: the holder itself is never an element of its own slice")
	}
}

// ---------------------------------------------------------------------------
// C07: injection by name
// ---------------------------------------------------------------------------

// two stateless (zero-sized) components of different types that declare the same name:
// real Go may give both the same address, yet they are distinct components
type vZN1 struct{}

func (p *vZN1) Naming() string { return "stateless" }

type vZN2 struct{}

func (p *vZN2) Naming() string { return "stateless" }

// a component and its own first field, both registered under one name
type vOuterN struct {
	Inner vInnerN
	x     int
}
type vInnerN struct{ y int }

func (p *vOuterN) Naming() string { return "nested" }
func (p *vInnerN) Naming() string { return "nested" }

// registration: two distinct components can never be registered under one name
func VerifC07Register() {
	if nd.Param("LOGLEVEL", 0) == 1 {
		// the application may have lowered the log verbosity: rejecting a duplicate must not depend on it
		syslog.Level([]syslog.Lv{syslog.LvFatal, syslog.LvPanic, syslog.LvInfo}[nd.Choose(3)])
		defer syslog.Level(syslog.LvInfo)
		nd.Cover("log level changed before registration")
	}
	switch nd.Choose(4) {
	case 3:
		// two types that print the same (model.Svc) but live in different packages have different default names
		reg := support.NewRegistry()
		a, b := &modela.Svc{X: 1}, &modelb.Svc{X: 2}
		nd.Assert(!nd.Catch(func() { reg.RegisterSingleton(a) }), "C07: the first component of a name is accepted")
		nd.Assert(!nd.Catch(func() { reg.RegisterSingleton(b) }), "C07: a component with a different default (package/type) name is accepted")
		ga, ea := reg.GetSingleton("github.com/go-kid/ioc/zzverif/pa/model/Svc")
		gb, eb := reg.GetSingleton("github.com/go-kid/ioc/zzverif/pb/model/Svc")
		nd.Assert(ea == nil && eb == nil && ga == any(a) && gb == any(b), "C07: each component is registered under its own default package/type name")
		nd.Cover("same-named types of different packages")
		return
	case 1:
		reg := support.NewRegistry()
		a, b := &vZN1{}, &vZN2{}
		nd.Assert(!nd.Catch(func() { reg.RegisterSingleton(a) }), "C07: the first component of a name is accepted")
		nd.Assert(nd.Catch(func() { reg.RegisterSingleton(b) }), "C07: a different component under an already registered name is rejected")
		nd.Cover("stateless components sharing a name")
		return
	case 2:
		reg := support.NewRegistry()
		o := &vOuterN{}
		nd.Assert(!nd.Catch(func() { reg.RegisterSingleton(o) }), "C07: the first component of a name is accepted")
		nd.Assert(nd.Catch(func() { reg.RegisterSingleton(&o.Inner) }), "C07: a different component under an already registered name is rejected")
		nd.Cover("a component and its first field sharing a name")
		return
	}
	k := nd.Param("K", 3)
	reg := support.NewRegistry()
	var ps []any
	var names []string
	var accepted []bool
	for i := 0; i < k; i++ {
		t := nd.Choose(2) // *vPA or *vPB
		a := vAttr{id: i, nm: nd.StringUpTo(nd.Param("L", 1))}
		p := vMake(t, a)
		ps = append(ps, p)
		names = append(names, vProviderName(p))
		rejected := nd.Catch(func() { reg.RegisterSingleton(p) })
		accepted = append(accepted, !rejected)
		dup := false
		for j := 0; j < i; j++ {
			if accepted[j] && names[j] == names[i] {
				dup = true
			}
		}
		nd.Assert(rejected == dup, "C07: a component is rejected exactly when another component already holds its name")
		if rejected {
			nd.Cover("duplicate rejected")
		}
	}
	for i := 0; i < k; i++ {
		got, err := reg.GetSingleton(names[i])
		nd.Assert(err == nil, "C07: a registered name is retrievable")
		first := -1
		for j := 0; j < k; j++ {
			if accepted[j] && names[j] == names[i] {
				first = j
				break
			}
		}
		nd.Assert(first >= 0 && got == ps[first], "C07: a name refers to exactly the component registered under it")
	}
}

// several by-name points on one holder: an unknown name on one of them must not affect the others
type vHNames struct {
	nm string
	A  vI1 `wire:""`
	B  vI1 `wire:""`
	C  vI1 `wire:""`
}

func (h *vHNames) Naming() string { return h.nm }

func VerifC07Fields() {
	r := newRHOrder(false)
	p1, p2 := &vPA{vAttr{id: 1, nm: "p1"}}, &vPA{vAttr{id: 2, nm: "p2"}}
	h := &vHNames{nm: "holder"}
	hm := r.register(h, "holder")
	r.register(p1, "p1")
	r.register(p2, "p2")
	names := []string{"p1", "p2", "nobody"}
	var req [3]string
	var opt [3]bool
	for i, pr := range hm.GetComponentProperties() {
		req[i] = names[nd.Choose(3)]
		opt[i] = nd.Bool()
		pr.TagVal = req[i]
		if opt[i] {
			pr.SetArg(component_definition.ArgRequired, "false")
		}
	}
	_, err := r.f.doGetComponent("holder")
	expectErr := false
	for i := 0; i < 3; i++ {
		if req[i] == "nobody" && !opt[i] {
			expectErr = true
		}
	}
	nd.Assert((err != nil) == expectErr, "C07: start-up fails exactly when a required by-name point names no component")
	if err != nil {
		return
	}
	got := []vI1{h.A, h.B, h.C}
	for i := 0; i < 3; i++ {
		switch req[i] {
		case "p1":
			nd.Assert(got[i] == vI1(p1), "C07: each by-name point receives exactly its named component, whatever the other points name")
		case "p2":
			nd.Assert(got[i] == vI1(p2), "C07: each by-name point receives exactly its named component, whatever the other points name")
		default:
			nd.Cover("absent optional name next to other points")
			nd.Assert(got[i] == nil, "C07: an optional by-name point naming no component stays untouched")
		}
	}
}

// a holder that is wired by name to another component of its own Go type
type vHPeer struct {
	nm string
	F  *vHPeer `wire:""`
}

func (h *vHPeer) Naming() string { return h.nm }

type vRHCfg struct {
	configure.Configure
	key, val string
}

func (c *vRHCfg) Get(path string) any {
	if path == c.key {
		return c.val
	}
	return nil
}

// by name among several components of the holder's own type (told apart only by their names)
func VerifC07Peers() {
	r := newRHOrder(false)
	h := &vHPeer{nm: "holder"}
	p1, p2 := &vHPeer{nm: "p1"}, &vHPeer{nm: "p2"}
	hm := r.register(h, "holder")
	r.register(p1, "p1")
	r.register(p2, "p2")
	req := []string{"p1", "p2", "holder", "nobody"}[nd.Choose(4)]
	optional := nd.Bool()
	for _, pr := range hm.GetComponentProperties() {
		pr.TagVal = req
		if optional {
			pr.SetArg(component_definition.ArgRequired, "false")
		}
	}
	_, err := r.f.doGetComponent("holder")
	switch req {
	case "p1", "p2":
		nd.Cover("peer of the holder's own type")
		nd.Assert(err == nil, "C07: start-up succeeds when the named component exists and is assignable")
		want := p1
		if req == "p2" {
			want = p2
		}
		nd.Assert(h.F == want, "C07: the point receives exactly the named component, no matter how many others share its type")
	default:
		if optional {
			nd.Assert(err == nil && h.F == nil, "C07: an optional by-name point that cannot be satisfied is left untouched")
		} else {
			nd.Assert(err != nil, "C07: a required by-name point that only its holder (or nobody) could satisfy is reported as an error")
		}
	}
}

func VerifC07() {
	k := nd.Param("K", 2)
	kind := []int{kPtr, kIface, kAny}[nd.Choose(3)]
	optional := nd.Bool()
	r := newRH()
	// providers: *vPA / *vPB / *vPC with custom or default names
	var ps []any
	var ts []int
	unnamed := [nProviderTypes]bool{}
	for i := 0; i < k; i++ {
		t := nd.Choose(3)
		a := vAttr{id: i}
		if !unnamed[t] && nd.Bool() {
			unnamed[t] = true
		} else {
			a.nm = vNames[i]
		}
		ps = append(ps, vMake(t, a))
		ts = append(ts, t)
	}
	h, single, _ := vHolder(kind)
	// the application may have put a built-in default (not a component) into the field before start-up
	var untouched any
	if nd.Param("PRESET", 1) == 1 && nd.Bool() {
		builtin := &vPA{vAttr{id: 99, nm: "builtin"}}
		switch x := h.(type) {
		case *vHPtr:
			x.F = builtin
		case *vHIface:
			x.F = builtin
		case *vHAny:
			x.F = builtin
		}
		untouched = builtin
		nd.Cover("field holds a built-in default before start-up")
	}
	hm := r.register(h, "holder")
	for _, p := range ps {
		r.register(p, vProviderName(p))
	}
	// requested name: one of the provider names, the holder's own name, or an absent name
	var req string
	c := nd.Choose(k + 3)
	switch {
	case c < k:
		req = vProviderName(ps[c])
	case c == k:
		req = "nobody"
	case c == k+1:
		// the default (package/type) name of the first provider's type: a component that declares a custom
		// name is registered under that name only
		req = vDefaultName(ps[0])
		nd.Cover("default type name of a provider requested")
	default:
		req = "holder"
	}
	viaPlaceholder := nd.Bool()
	for _, pr := range hm.GetComponentProperties() {
		if viaPlaceholder {
			// wire:"${which}": the configured value names the component
			nd.Cover("name given through a placeholder")
			pr.TagStr, pr.TagVal = "${which}", "${which}"
			r.cfg.key, r.cfg.val = "which", req
		} else {
			pr.TagVal = req
		}
		if optional {
			pr.SetArg(component_definition.ArgRequired, "false")
		}
	}
	_, err := r.f.doGetComponent("holder")
	// specification
	var want any
	for i, p := range ps {
		if vProviderName(p) == req {
			assignable := kind == kAny || (kind == kPtr && vIsPA[ts[i]]) || (kind == kIface && vImplI1[ts[i]])
			if assignable {
				want = p
			} else {
				nd.Cover("named component has an incompatible type")
			}
		}
	}
	if want == nil {
		if optional {
			nd.Cover("optional point, no such component")
			nd.Assert(err == nil, "C07: an optional by-name point that cannot be satisfied never fails start-up")
			nd.Assert(single() == untouched, "C07: an optional by-name point that cannot be satisfied leaves the field untouched")
		} else {
			nd.Assert(err != nil, "C07: a required by-name point without a matching assignable component is reported as an error")
		}
		return
	}
	nd.Cover("named component found")
	nd.Assert(err == nil, "C07: start-up succeeds when the named component exists and is assignable")
	nd.Assert(single() == want, "C07: the point receives exactly the component registered under the requested name")
}

// ---------------------------------------------------------------------------
// C08: qualifier and primary narrowing, per field, independent of the other fields
// ---------------------------------------------------------------------------

type vMissing interface{ vmissing() }

type vH8a struct {
	nm string
	A  vI1 `wire:""`
	B  vI1 `wire:""`
}
type vH8b struct {
	nm string
	A  vMissing `wire:",required=false"`
	B  vI1      `wire:""`
}
type vH8c struct {
	nm string
	A  []vI1 `wire:""`
	B  vI1   `wire:""`
}
type vH8d struct {
	nm string
	A  vI1   `wire:""`
	B  []vI1 `wire:",required=false"`
	C  vI1   `wire:""`
}

// func-tag points take part in qualifier / primary narrowing like wire points
type vH8f struct {
	nm string
	A  []any `func:"Hook"`
	B  any   `func:"Hook"`
}

func (h *vH8f) Naming() string { return h.nm }

// a pointer-typed single-valued point: the same preference rules apply (unique primary is impossible
// for one pointer type here, so: a unique component without a custom name wins)
type vH8p struct {
	nm string
	A  *vPA `wire:""`
}

func (h *vH8p) Naming() string { return h.nm }

// one qualified single-valued field (used with three candidates)
type vH8s struct {
	nm string
	A  vI1 `wire:""`
}

func (h *vH8s) Naming() string { return h.nm }
func (h *vH8a) Naming() string { return h.nm }
func (h *vH8b) Naming() string { return h.nm }
func (h *vH8c) Naming() string { return h.nm }
func (h *vH8d) Naming() string { return h.nm }

type vFieldView struct {
	name   string
	slice  bool
	single func() any
	multi  func() []any
	nocand bool // declared type has no implementer at all
	hook   bool // func-tag point: candidates are the components exposing Hook() without result
	ptrPA  bool // *vPA point: candidates are exactly the *vPA components
}

func ifaceOrNil(v vI1) any {
	if v == nil {
		return nil
	}
	return v
}
func ifaceSlice(v []vI1) []any {
	var o []any
	for _, e := range v {
		o = append(o, e)
	}
	return o
}

func VerifC08() {
	k := nd.Param("K", 2)
	r := newRH()
	var h any
	var fields []vFieldView
	shape := nd.Param("ONLY", -1)
	if shape < 0 {
		shape = nd.Choose(nd.Param("SHAPES", 4))
	}
	switch shape {
	case 0:
		x := &vH8a{nm: "holder"}
		h = x
		fields = []vFieldView{{name: "A", single: func() any { return ifaceOrNil(x.A) }}, {name: "B", single: func() any { return ifaceOrNil(x.B) }}}
	case 1:
		x := &vH8b{nm: "holder"}
		h = x
		fields = []vFieldView{{name: "A", nocand: true, single: func() any {
			if x.A == nil {
				return nil
			}
			return x.A
		}}, {name: "B", single: func() any { return ifaceOrNil(x.B) }}}
	case 2:
		x := &vH8c{nm: "holder"}
		h = x
		fields = []vFieldView{{name: "A", slice: true, multi: func() []any { return ifaceSlice(x.A) }}, {name: "B", single: func() any { return ifaceOrNil(x.B) }}}
	case 6:
		x := &vH8p{nm: "holder"}
		h = x
		fields = []vFieldView{{name: "A", ptrPA: true, single: func() any {
			if x.A == nil {
				return nil
			}
			return x.A
		}}}
		nd.Cover("pointer-typed point")
	case 5:
		x := &vH8s{nm: "holder"}
		h = x
		fields = []vFieldView{{name: "A", single: func() any { return ifaceOrNil(x.A) }}}
	case 4:
		x := &vH8f{nm: "holder"}
		h = x
		fields = []vFieldView{{name: "A", slice: true, hook: true, multi: func() []any { return x.A }}, {name: "B", hook: true, single: func() any { return x.B }}}
		nd.Cover("func-tag points")
	default:
		x := &vH8d{nm: "holder"}
		h = x
		fields = []vFieldView{{name: "A", single: func() any { return ifaceOrNil(x.A) }}, {name: "B", slice: true, multi: func() []any { return ifaceSlice(x.B) }}, {name: "C", single: func() any { return ifaceOrNil(x.C) }}}
	}
	// candidates: implementers of vI1 (*vPA, *vPB, *vPP) and *vPC (not an implementer)
	ps, ts := vProvidersOf(k, true, []int{tPA, tPC, tPP})
	hm := r.register(h, "holder")
	if nd.Param("MIXED", 0) == 1 && nd.Bool() {
		// the holder also carries a configuration value: its property list mixes both property kinds,
		// in whatever order the groups are enumerated
		hm.SetProperties(component_definition.NewProperty(nil, component_definition.PropertyTypeConfiguration, "value", "x"))
		nd.Cover("holder with a configuration value next to its injection points")
	}
	for _, p := range ps {
		r.register(p, vProviderName(p))
	}
	// per field: requested qualifier set (0..2 symbolic one-byte items) and required bit
	type want struct {
		hasQ     bool
		qs       []string
		optional bool
	}
	wants := make([]want, len(fields))
	props := hm.GetComponentProperties()
	nd.Assert(len(props) == len(fields), "C11: one property per tagged field")
	for i := range fields {
		var pr *component_definition.Property
		for _, p := range props {
			if p.StructField.Name == fields[i].name {
				pr = p
			}
		}
		w := want{}
		if fields[i].nocand {
			w.optional = true
		} else {
			nq := nd.Choose(nd.Param("NQ", 1) + 1)
			if nq > 0 {
				w.hasQ = true
				for j := 0; j < nq; j++ {
					w.qs = append(w.qs, nd.Bytes(1))
				}
				pr.SetArg(component_definition.ArgQualifier, w.qs...)
			}
			if !pr.IsRequired() {
				w.optional = true
			} else if nd.Bool() {
				w.optional = true
				pr.SetArg(component_definition.ArgRequired, "false")
			}
		}
		wants[i] = w
	}
	_, err := r.f.doGetComponent("holder")
	// specification, field by field
	expectErr := false
	type spec struct{ q []int }
	specs := make([]spec, len(fields))
	for i, fv := range fields {
		if fv.nocand {
			continue
		}
		for j := range ps {
			if fv.ptrPA {
				if !vIsPA[ts[j]] {
					continue
				}
			} else if fv.hook {
				if !vHookNoResult[ts[j]] {
					continue
				}
			} else if !vImplI1[ts[j]] {
				continue
			}
			a, _ := vAttrOf(ps[j])
			if wants[i].hasQ {
				if !vHasQualifier[ts[j]] {
					continue
				}
				in := false
				for _, q := range wants[i].qs {
					if q == a.q {
						in = true
					}
				}
				if !in {
					continue
				}
			}
			specs[i].q = append(specs[i].q, j)
		}
		if len(specs[i].q) == 0 && !wants[i].optional {
			expectErr = true
		}
	}
	if err != nil {
		nd.Cover("start failed")
		nd.Assert(expectErr, "C08: start-up fails only when some required point has no qualifying candidate")
		return
	}
	nd.Cover("start ok")
	nd.Assert(!expectErr, "C08: a required point without a qualifying candidate is reported as an error")
	for i, fv := range fields {
		q := specs[i].q
		if fv.slice {
			got := fv.multi()
			nd.Assert(len(got) == len(q), "C08: a slice point holds exactly the qualifying candidates")
			for _, g := range got {
				in := false
				for _, j := range q {
					if g == ps[j] {
						in = true
					}
				}
				nd.Assert(in, "C08: every slice element has a requested qualifier")
			}
			continue
		}
		got := fv.single()
		if len(q) == 0 {
			nd.Assert(got == nil, "C08: an optional point without a qualifying candidate stays empty")
			continue
		}
		in := false
		for _, j := range q {
			if got == ps[j] {
				in = true
			}
		}
		nd.Assert(in, "C08: only a component with a requested qualifier is injected")
		nPrim, nUnnamed, prim, un := 0, 0, -1, -1
		for _, j := range q {
			a, _ := vAttrOf(ps[j])
			if vIsPrimary[ts[j]] {
				nPrim++
				prim = j
			} else if a.nm == "" {
				nUnnamed++
				un = j
			}
		}
		if nPrim == 1 {
			nd.Cover("unique primary")
			nd.Assert(got == ps[prim], "C08: a unique Primary candidate wins")
		} else if nPrim == 0 && nUnnamed == 1 {
			nd.Cover("unique unnamed")
			nd.Assert(got == ps[un], "C08: without a Primary, a unique candidate without a custom name wins")
		} else if nPrim > 1 {
			a, t := vAttrOf(got)
			_ = a
			nd.Assert(vIsPrimary[t], "C10: a tie is broken only inside the top-ranked candidates")
		} else if nUnnamed > 1 {
			a, _ := vAttrOf(got)
			nd.Assert(a.nm == "", "C10: a tie is broken only inside the top-ranked candidates")
		}
	}
}

// ---------------------------------------------------------------------------
// C06: two DIFFERENT interface types that print the same (function-local types with
// one name): type-directed candidates must be decided by type identity, not by name
// ---------------------------------------------------------------------------

func vLocalHolderA() (any, func() []any) {
	type vLoc interface{ M1() int }
	type hold struct {
		nm string
		F  []vLoc `wire:""`
	}
	h := &hold{nm: "hA"}
	return h, func() []any {
		var o []any
		for _, e := range h.F {
			o = append(o, e)
		}
		return o
	}
}

func vLocalHolderB() (any, func() []any) {
	type vLoc interface{ M2() int }
	type hold struct {
		nm string
		F  []vLoc `wire:""`
	}
	h := &hold{nm: "hB"}
	return h, func() []any {
		var o []any
		for _, e := range h.F {
			o = append(o, e)
		}
		return o
	}
}

func VerifC06SameName() {
	k := nd.Param("K", 2)
	r := newRHOrder(false)
	ps, ts := vProvidersOf(k, false, []int{tPA, tPB, tPC})
	hA, getA := vLocalHolderA()
	hB, getB := vLocalHolderB()
	r.register(hA, "hA")
	r.register(hB, "hB")
	for _, p := range ps {
		r.register(p, vProviderName(p))
	}
	for _, m := range r.f.definitionRegistry.GetMetas() {
		for _, pr := range m.GetComponentProperties() {
			pr.SetArg(component_definition.ArgRequired, "false")
		}
	}
	first, second := "hA", "hB"
	if nd.Bool() {
		first, second = second, first
	}
	_, e1 := r.f.doGetComponent(first)
	_, e2 := r.f.doGetComponent(second)
	nd.Assert(e1 == nil && e2 == nil, "C06: optional slice points never fail")
	implI2 := [nProviderTypes]bool{tPB: true, tPC: true}
	check := func(got []any, impl [nProviderTypes]bool) {
		want := 0
		for i, p := range ps {
			if impl[ts[i]] {
				want++
				c := 0
				for _, g := range got {
					if g == p {
						c++
					}
				}
				nd.Assert(c == 1, "C06: every implementer of the field's interface appears exactly once")
			}
		}
		nd.Assert(len(got) == want, "C06: only implementers of the field's own interface type are injected")
	}
	check(getA(), vImplI1)
	check(getB(), implI2)
	nd.Cover("two same-named interface types")
}

// C07 with SYMBOLIC names: two components of one type with arbitrary one-byte custom names,
// an arbitrary one-byte requested name: the point receives a component iff its name equals
// the requested name byte for byte (the solver decides every name comparison).
func VerifC07Symbolic() {
	r := newRHOrder(false)
	n1, n2, req := nd.Bytes(1), nd.Bytes(1), nd.Bytes(1)
	nd.Assume(n1 != n2 && n1 != "holder" && n2 != "holder")
	p1, p2 := &vPA{vAttr{id: 1, nm: n1}}, &vPA{vAttr{id: 2, nm: n2}}
	h := &vHPtr{nm: "holder"}
	hm := r.register(h, "holder")
	r.register(p1, n1)
	r.register(p2, n2)
	optional := nd.Bool()
	for _, pr := range hm.GetComponentProperties() {
		pr.TagVal = req
		if optional {
			pr.SetArg(component_definition.ArgRequired, "false")
		}
	}
	_, err := r.f.doGetComponent("holder")
	switch {
	case req == n1:
		nd.Cover("first name requested")
		nd.Assert(err == nil && h.F == p1, "C07: the point receives exactly the component registered under the requested name")
	case req == n2:
		nd.Cover("second name requested")
		nd.Assert(err == nil && h.F == p2, "C07: the point receives exactly the component registered under the requested name")
	default:
		nd.Cover("no such name")
		if optional {
			nd.Assert(err == nil && h.F == nil, "C07: an optional by-name point without a component of that name is left untouched")
		} else {
			nd.Assert(err != nil, "C07: a required by-name point without a component of that name is reported as an error")
		}
	}
}

// ---------------------------------------------------------------------------
// C06: func tag with returns=: a point receives exactly the components whose method returns the
// requested value; several such points on one holder do not influence each other.  The values
// the methods return are symbolic bytes.
// ---------------------------------------------------------------------------

type vRet struct {
	id          int
	stage, kind string
}

func (p *vRet) Stage() string  { return p.stage }
func (p *vRet) Kind() string   { return p.kind }
func (p *vRet) Naming() string { return vNames[p.id] }

type vHRet struct {
	nm  string
	Pre []any `func:"Stage,returns=p,required=false"`
	Xs  []any `func:"Kind,returns=x,required=false"`
	// the wildcard accepts any result - of components that HAVE the method
	Any []any `func:"Stage,returns=*,required=false"`
}

// a component of a compatible type that does not expose the requested methods
type vNoRet struct{ nm string }

func (p *vNoRet) Naming() string { return p.nm }

// a component whose methods have the requested NAMES but take a parameter: it does not expose the
// requested (parameterless) method, so it is no candidate - and asking must not break start-up
type vArgRet struct{ nm string }

func (p *vArgRet) Naming() string          { return p.nm }
func (p *vArgRet) Stage(x int) string      { return "p" }
func (p *vArgRet) Kind(x, y string) string { return "x" }

func (h *vHRet) Naming() string { return h.nm }

func VerifC06Returns() {
	k := nd.Param("K", 2)
	r := newRHOrder(false)
	var ps []*vRet
	h := &vHRet{nm: "holder"}
	r.register(h, "holder")
	for i := 0; i < k; i++ {
		p := &vRet{id: i, stage: nd.Bytes(1), kind: nd.Bytes(1)}
		for _, s := range []string{p.stage, p.kind} {
			nd.Assume(s[0] >= 'g' && s[0] <= 'z')
		}
		ps = append(ps, p)
		r.register(p, vNames[i])
	}
	plain := &vNoRet{nm: "plain"}
	r.register(plain, "plain")
	if nd.Bool() {
		r.register(&vArgRet{nm: "withargs"}, "withargs")
		nd.Cover("a component whose method of the requested name takes parameters")
	}
	_, err := r.f.doGetComponent("holder")
	nd.Assert(err == nil, "C06: optional func points never fail")
	anyRets := 0
	for _, e := range h.Any {
		_, isRet := e.(*vRet)
		_, isArg := e.(*vArgRet) // has a method of that name; whether its parameters disqualify it under the wildcard is not stated
		nd.Assert(isRet || isArg, "C06: a func point with the wildcard result receives only components that expose the requested method")
		if isRet {
			anyRets++
		}
	}
	nd.Assert(anyRets == k && len(h.Any) <= k+1, "C06: a func point with the wildcard result receives every component that exposes the requested method exactly once")
	count := func(list []any, p *vRet) int {
		c := 0
		for _, e := range list {
			if e == any(p) {
				c++
			}
		}
		return c
	}
	wantPre, wantXs := 0, 0
	for _, p := range ps {
		if p.stage == "p" {
			wantPre++
			nd.Assert(count(h.Pre, p) == 1, "C06: a func point receives every component whose method returns the requested value")
		} else {
			nd.Assert(count(h.Pre, p) == 0, "C06: a func point receives only components whose method returns the requested value")
		}
		if p.kind == "x" {
			wantXs++
			nd.Assert(count(h.Xs, p) == 1, "C06: a func point receives every component whose method returns the requested value")
		} else {
			nd.Assert(count(h.Xs, p) == 0, "C06: a func point receives only components whose method returns the requested value")
		}
	}
	nd.Assert(len(h.Pre) == wantPre && len(h.Xs) == wantXs, "C06: exactly once each")
	if wantPre > 0 && wantXs > 0 {
		nd.Cover("both func points populated")
	}
}

// C06 with a sealed interface (unexported methods): implementers may have fewer exported methods
// than the interface has methods in total
type vSealed interface {
	M1() int
	sealed()
	sealed2()
}

type vSealA struct{ id int }

func (p *vSealA) M1() int  { return p.id }
func (p *vSealA) sealed()  {}
func (p *vSealA) sealed2() {}

type vSealB struct{ id int }

func (p *vSealB) M1() int  { return p.id }
func (p *vSealB) Extra()   {}
func (p *vSealB) Extra2()  {}
func (p *vSealB) Extra3()  {}
func (p *vSealB) sealed()  {}
func (p *vSealB) sealed2() {}
func (p *vSealB) Primary() {}

type vSealHolder struct {
	One vSealed   `wire:""`
	All []vSealed `wire:""`
}

func VerifC06Sealed() {
	r := newRHOrder(false)
	a, b := &vSealA{id: 1}, &vSealB{id: 2}
	withB := nd.Bool()
	h := &vSealHolder{}
	r.register(h, "holder")
	r.register(a, "a")
	if withB {
		r.register(b, "b")
	}
	// an unrelated implementer of the exported part only
	r.register(&vPA{vAttr{id: 9, nm: "pa"}}, "pa")
	_, err := r.f.doGetComponent("holder")
	nd.Assert(err == nil, "C06: a point whose interface has unexported methods is populated by its implementers")
	if err != nil {
		return
	}
	if withB {
		nd.Assert(h.One == vSealed(b), "C08: the primary implementer wins the single-valued point")
		nd.Assert(len(h.All) == 2, "C06: a slice point receives every implementer of a sealed interface exactly once")
	} else {
		nd.Assert(h.One == vSealed(a), "C06: a single-valued point receives the only implementer")
		nd.Assert(len(h.All) == 1 && h.All[0] == vSealed(a), "C06: a slice point receives every implementer of a sealed interface exactly once")
	}
	nd.Cover("sealed interface")
}

// C09/C08: optional qualified points none of whose candidates carries the requested qualifier
// stay empty and never fail start-up; the required flavour fails cleanly.
type vHOptQual struct {
	Q  vI1   `wire:",qualifier=nobody,required=false"`
	QS []vI1 `wire:",qualifier=nobody,required=false"`
	R  vI1   `wire:""`
}

type vHReqQual struct {
	Q vI1 `wire:",qualifier=nobody"`
}

func VerifC09OptionalQualified() {
	r := newRH()
	k := nd.Param("K", 2)
	var first any
	for i := 0; i < k; i++ {
		p := &vPA{vAttr{id: i, nm: vNames[i], q: "q" + vNames[i], hasQ: true}}
		if i == 0 {
			first = p
		}
		r.register(p, vNames[i])
	}
	_ = first
	if nd.Bool() {
		h := &vHReqQual{}
		r.register(h, "holder")
		_, err := r.f.doGetComponent("holder")
		nd.Assert(err != nil, "C09: a required qualified point none of whose candidates carries the qualifier is reported as an error")
		nd.Cover("required qualified point without a match")
		return
	}
	h := &vHOptQual{}
	r.register(h, "holder")
	_, err := r.f.doGetComponent("holder")
	nd.Assert(err == nil, "C09: points marked required=false that cannot be satisfied never cause a failure")
	nd.Assert(h.Q == nil && len(h.QS) == 0, "C09: an optional point that cannot be satisfied leaves its field at the zero value")
	nd.Assert(h.R != nil, "C08: the other points of the holder are still populated")
	nd.Cover("optional qualified point without a match")
}

// C06: a component that lives at its holder's address (the holder's first field, registered as a
// component of its own) is a different component, not the holder
type vInnerH struct{ id int }

func (p *vInnerH) M1() int { return p.id }

type vOuterH struct {
	First  vInnerH
	Others []vI1 `wire:""`
	One    vI1   `wire:"inner"`
}

func VerifC06FirstField() {
	r := newRHOrder(false)
	outer := &vOuterH{First: vInnerH{id: 7}}
	inner := &outer.First
	pa := &vPA{vAttr{id: 1, nm: "pa"}}
	withPA := nd.Bool()
	order := nd.Choose(2)
	if order == 0 {
		r.register(outer, "holder")
		r.register(inner, "inner")
	} else {
		r.register(inner, "inner")
		r.register(outer, "holder")
	}
	if withPA {
		r.register(pa, "pa")
	}
	_, err := r.f.doGetComponent("holder")
	nd.Assert(err == nil, "C06: a point whose candidate lives at the holder's address but is another component is populated")
	if err != nil {
		return
	}
	nd.Assert(outer.One == vI1(inner), "C07: the point receives exactly the component registered under the requested name")
	cInner, cPA := 0, 0
	for _, e := range outer.Others {
		if e == vI1(inner) {
			cInner++
		}
		if e == vI1(pa) {
			cPA++
		}
	}
	want := 1
	if withPA {
		want = 2
	}
	nd.Assert(cInner == 1 && len(outer.Others) == want && (!withPA || cPA == 1), "C06: a slice point receives every compatible component exactly once, except the holder itself")
	nd.Cover("component at the holder's address")
}

func vDefaultName(c any) string {
	switch c.(type) {
	case *vPA:
		return "github.com/go-kid/ioc/container/factory/vPA"
	case *vPB:
		return "github.com/go-kid/ioc/container/factory/vPB"
	case *vPC:
		return "github.com/go-kid/ioc/container/factory/vPC"
	}
	return "github.com/go-kid/ioc/container/factory/vPP"
}

// C05: a processor that substitutes the component BEFORE initialization by a decorator which forwards
// the init methods: AfterPropertiesSet and Init still run exactly once, on what goes on through the lifecycle
type vSvcInit struct {
	aps, inits int
}

func (s *vSvcInit) AfterPropertiesSet() error { s.aps++; return nil }
func (s *vSvcInit) Init() error               { s.inits++; return nil }

type vSvcDecor struct{ *vSvcInit }

type vSubstProc struct {
	processors.DefaultInstantiationAwareComponentPostProcessor
}

func (p *vSubstProc) LazyInit() {}
func (p *vSubstProc) PostProcessBeforeInitialization(c any, n string) (any, error) {
	if s, ok := c.(*vSvcInit); ok {
		return &vSvcDecor{s}, nil
	}
	return c, nil
}
func (p *vSubstProc) PostProcessAfterInitialization(c any, n string) (any, error) { return c, nil }

func VerifC05Substitute() {
	f := &defaultFactory{
		definitionRegistry:                support.DefaultDefinitionRegistry(),
		singletonComponentRegistry:        support.DefaultSingletonComponentRegistry(),
		postProcessorRegistrationDelegate: NewPostProcessorRegistrationDelegate(),
		allowCircularReferences:           true,
	}
	svc := &vSvcInit{}
	substitute := nd.Bool()
	if substitute {
		f.postProcessorRegistrationDelegate.RegisterComponentPostProcessors(&vSubstProc{}, "subst")
	}
	f.definitionRegistry.GetMetaOrRegister("svc", svc)
	nd.Assert(f.postProcessorRegistrationDelegate.InvokeBeanFactoryPostProcessors(f, nil) == nil, "processor activation ok")
	nd.Assert(f.Refresh() == nil, "start ok")
	nd.Assert(svc.aps == 1 && svc.inits == 1, "C05: AfterPropertiesSet and Init run exactly once, also when a processor substitutes the component before initialization")
	got, err := f.GetComponentByName("svc")
	nd.Assert(err == nil, "lookup ok")
	if substitute {
		_, isDecor := got.(*vSvcDecor)
		nd.Assert(isDecor, "C03: the lookup returns the version the container finally publishes")
		nd.Cover("component substituted before initialization")
	}
}
