//go:build verif

package support

import (
	"errors"

	"github.com/go-kid/ioc/component_definition"
	"github.com/go-kid/ioc/container"
	"github.com/go-kid/ioc/zzverif/nd"
)

// C04 tier A: one registry operation from an ARBITRARY pre-state of the three
// cache levels and the in-creation set, compared observationally with a
// reference model of the intended protocol.  One inductive step covers that
// step in histories of any length.

type vMeta = component_definition.Meta

var errV = errors.New("boom")

// scripted early-reference factory: returns metas[ret] or an error; counts invocations
type vFacScript struct {
	ret  int
	fail bool
}

type vModel struct {
	l1, l2 map[string]*vMeta
	l3     map[string]func() (*vMeta, error)
	mark   map[string]bool
}

func newVModel() *vModel {
	return &vModel{l1: map[string]*vMeta{}, l2: map[string]*vMeta{}, l3: map[string]func() (*vMeta, error){}, mark: map[string]bool{}}
}

func (m *vModel) getSingleton(name string, allow bool) (*vMeta, error) {
	if v, ok := m.l1[name]; ok {
		return v, nil
	}
	if v, ok := m.l2[name]; ok {
		return v, nil
	}
	if allow {
		if f, ok := m.l3[name]; ok {
			c, err := f()
			if err != nil {
				return nil, err
			}
			m.l2[name] = c
			delete(m.l3, name)
			return c, nil
		}
	}
	return nil, nil
}

func (m *vModel) addSingleton(name string, v *vMeta) {
	m.l1[name] = v
	delete(m.l2, name)
	delete(m.l3, name)
}

func (m *vModel) remove(name string) {
	delete(m.l1, name)
	delete(m.l2, name)
	delete(m.l3, name)
	delete(m.mark, name)
}

// intended protocol of a creation: a failed creation leaves the name unmarked and invisible
func (m *vModel) create(name string, g func() (*vMeta, error)) (*vMeta, error) {
	if v, ok := m.l1[name]; ok {
		return v, nil
	}
	m.mark[name] = true
	s, err := g()
	if err != nil {
		delete(m.mark, name)
		delete(m.l2, name)
		delete(m.l3, name)
		return nil, err
	}
	delete(m.mark, name)
	m.addSingleton(name, s)
	return s, nil
}

type vSide struct {
	calls []int // invocations per scripted factory
	gRuns int
}

func VerifC04Step() {
	r := DefaultSingletonComponentRegistry().(*defaultSingletonComponentRegistry)
	m := newVModel()
	// distinct metas per role: x: L1, L2, L3-result, nested early factory, creation result; y: L1, L2, L3-result
	metas := []*vMeta{{}, {}, {}, {}, {}, {}, {}, {}}
	x := nd.Bytes(1)
	y := nd.Bytes(1)
	names := []string{x, y}
	real, mod := &vSide{}, &vSide{}
	var scripts []vFacScript
	mkFac := func(side *vSide, id int) func() (*vMeta, error) {
		return func() (*vMeta, error) {
			for len(side.calls) <= id {
				side.calls = append(side.calls, 0)
			}
			side.calls[id]++
			if scripts[id].fail {
				return nil, errV
			}
			return metas[scripts[id].ret], nil
		}
	}
	newScript := func(ret int) int {
		scripts = append(scripts, vFacScript{ret: ret, fail: nd.Bool()})
		return len(scripts) - 1
	}
	// ---- arbitrary pre-state (written directly into the real maps and into the model)
	for zi, z := range names {
		base := zi * 5
		if nd.Bool() {
			k := base
			r.singletonObjects.Store(z, metas[k])
			m.l1[z] = metas[k]
		}
		if nd.Bool() {
			k := base + 1
			r.earlySingletonObjects.Store(z, metas[k])
			m.l2[z] = metas[k]
		}
		if nd.Bool() {
			id := newScript(base + 2)
			r.singletonFactories.Store(z, container.FuncSingletonFactory(mkFac(real, id)))
			m.l3[z] = mkFac(mod, id)
		}
		if nd.Bool() {
			r.singletonCurrentlyInCreation.Put(z)
			m.mark[z] = true
		}
	}
	// ---- one operation with arbitrary arguments
	op := nd.Choose(6)
	switch op {
	case 0:
		allow := nd.Bool()
		a, ea := r.GetSingleton(x, allow)
		b, eb := m.getSingleton(x, allow)
		nd.Assert(a == b && (ea != nil) == (eb != nil), "C04: lookup returns what the protocol prescribes")
		nd.Cover("op lookup")
	case 1:
		// creation as the factory issues it: lookup with early references allowed came back empty, then create
		a0, ea0 := r.GetSingleton(x, true)
		b0, eb0 := m.getSingleton(x, true)
		nd.Assert(a0 == b0 && (ea0 != nil) == (eb0 != nil), "C04: lookup returns what the protocol prescribes")
		if a0 != nil || ea0 != nil {
			return
		}
		nestAdd := nd.Bool()
		var efID int
		if nestAdd {
			efID = newScript(3)
		}
		lookups := nd.Choose(3)
		gFail := nd.Bool()
		gRet := 4
		var seenReal, seenMod []*vMeta
		gReal := func() (*vMeta, error) {
			real.gRuns++
			nd.Assert(r.IsSingletonCurrentlyInCreation(x), "C04: a name is reported as in creation while its factory runs")
			if nestAdd {
				r.AddSingletonFactory(x, container.FuncSingletonFactory(mkFac(real, efID)))
			}
			for i := 0; i < lookups; i++ {
				v, err := r.GetSingleton(x, true)
				if err != nil {
					return nil, err // as populateComponent does
				}
				seenReal = append(seenReal, v)
			}
			if gFail {
				return nil, errV
			}
			return metas[gRet], nil
		}
		gMod := func() (*vMeta, error) {
			mod.gRuns++
			if nestAdd {
				m.l3[x] = mkFac(mod, efID)
			}
			for i := 0; i < lookups; i++ {
				v, err := m.getSingleton(x, true)
				if err != nil {
					return nil, err
				}
				seenMod = append(seenMod, v)
			}
			if gFail {
				return nil, errV
			}
			return metas[gRet], nil
		}
		a, ea := r.GetSingletonOrCreateByFactory(x, container.FuncSingletonFactory(gReal))
		b, eb := m.create(x, gMod)
		nd.Assert(a == b && (ea != nil) == (eb != nil), "C04: creation returns what the protocol prescribes")
		nd.Assert(real.gRuns == mod.gRuns, "C04: the creating factory runs as often as the protocol prescribes")
		nd.Assert(len(seenReal) == len(seenMod), "C04: nested lookups")
		for i := range seenReal {
			nd.Assert(seenReal[i] == seenMod[i], "C04: lookups during creation observe the protocol's early reference")
			if i > 0 && seenReal[i-1] != nil {
				nd.Assert(seenReal[i] == seenReal[i-1], "C04: all lookups during creation observe one and the same early reference")
			}
		}
		if nestAdd && efID < len(real.calls) {
			nd.Assert(real.calls[efID] <= 1, "C04: the early-reference factory runs at most once")
		}
		if ea != nil {
			nd.Cover("creation failed")
			v, _ := r.GetSingleton(x, true)
			nd.Assert(v == nil, "C04: nothing of a failed creation stays visible")
			nd.Assert(!r.IsSingletonCurrentlyInCreation(x), "C04: a failed creation does not leave the name marked as in creation")
		} else {
			nd.Cover("creation succeeded")
			v, _ := r.GetSingleton(x, false)
			nd.Assert(v == a, "C04: after creation the published instance is what lookups return")
			nd.Assert(!r.IsSingletonCurrentlyInCreation(x), "C04: a published name is no longer reported as in creation")
		}
	case 2:
		k := 4
		r.AddSingleton(x, metas[k])
		m.addSingleton(x, metas[k])
		v, _ := r.GetSingleton(x, true)
		nd.Assert(v == metas[k], "C04: the published instance is the only thing returned for the name")
		nd.Cover("op publish")
	case 3:
		id := newScript(3)
		r.AddSingletonFactory(x, container.FuncSingletonFactory(mkFac(real, id)))
		m.l3[x] = mkFac(mod, id)
	case 4:
		r.RemoveSingleton(x)
		m.remove(x)
	case 5:
		nd.Assert(r.IsSingletonCurrentlyInCreation(x) == m.mark[x], "C04: in-creation report")
	}
	// ---- observational equivalence afterwards, for both names (frame condition for y != x)
	for _, z := range names {
		a, _ := r.GetSingleton(z, false)
		b, _ := m.getSingleton(z, false)
		nd.Assert(a == b, "C04: post-state: lookup without early references agrees with the protocol")
		nd.Assert(r.IsSingletonCurrentlyInCreation(z) == m.mark[z], "C04: post-state: in-creation mark agrees with the protocol")
		a2, e2 := r.GetSingleton(z, true)
		b2, f2 := m.getSingleton(z, true)
		nd.Assert(a2 == b2 && (e2 != nil) == (f2 != nil), "C04: post-state: lookup with early references agrees with the protocol")
	}
	for i := range scripts {
		ca, cb := 0, 0
		if i < len(real.calls) {
			ca = real.calls[i]
		}
		if i < len(mod.calls) {
			cb = mod.calls[i]
		}
		nd.Assert(ca == cb, "C04: every early-reference factory runs exactly as often as the protocol prescribes")
	}
}
