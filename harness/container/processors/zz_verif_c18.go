//go:build verif

package processors

import (
	"github.com/expr-lang/expr"
	"github.com/go-kid/ioc/component_definition"
	"github.com/go-kid/ioc/container"
	"github.com/go-kid/ioc/container/support"
	"github.com/go-kid/ioc/util/framework_helper"
	"github.com/go-kid/ioc/zzverif/nd"
	"github.com/go-kid/strconv2"
	"github.com/go-playground/validator/v10"
)

// C18 (a) stage order: the nine real processors plus extra user processors with
// symbolic class and Order(), sorted by the real SortOrderedComponents.

type vExtraPrio struct {
	DefaultInstantiationAwareComponentPostProcessor
	o int
}

func (p *vExtraPrio) Order() int { return p.o }
func (p *vExtraPrio) Priority()  {}

type vExtraOrd struct {
	DefaultInstantiationAwareComponentPostProcessor
	o int
}

func (p *vExtraOrd) Order() int { return p.o }

type vExtraPlain struct {
	DefaultInstantiationAwareComponentPostProcessor
}

func VerifC18Order() {
	cq := NewConfigQuoteAwarePostProcessors()
	ex := NewExpressionTagAwarePostProcessors()
	pa := NewPropertiesAwarePostProcessors()
	va := NewValueAwarePostProcessors()
	vd := NewValidateAwarePostProcessors()
	all := []container.ComponentPostProcessor{
		vd, NewDependencyFunctionAwarePostProcessors(), va, NewLoggerAwarePostProcessor(), pa,
		NewDependencyFurtherMatchingProcessors(), ex, NewDependencyAwarePostProcessors(), cq,
	}
	for i := 0; i < nd.Param("EXTRA", 1); i++ {
		switch nd.Choose(3) {
		case 0:
			all = append(all, &vExtraPrio{o: int(nd.Int64())})
		case 1:
			all = append(all, &vExtraOrd{o: int(nd.Int64())})
		default:
			all = append(all, &vExtraPlain{})
		}
	}
	// registration order is arbitrary: rotate
	rot := nd.Choose(len(all))
	all = append(append([]container.ComponentPostProcessor{}, all[rot:]...), all[:rot]...)
	sorted := framework_helper.SortOrderedComponents(all)
	at := func(p container.ComponentPostProcessor) int {
		for i, q := range sorted {
			if q == p {
				return i
			}
		}
		return -1
	}
	nd.Assert(len(sorted) == len(all), "C12: every processor appears exactly once")
	nd.Assert(at(cq) >= 0 && at(cq) < at(ex), "C18: placeholders are substituted before expressions are evaluated")
	nd.Assert(at(ex) < at(va) && at(ex) < at(pa), "C18: expressions are evaluated before values are bound")
	nd.Assert(at(va) < at(vd) && at(pa) < at(vd), "C18: validation runs after binding")
	nd.Cover("sorted")
}

// vEval: what evaluating an expression text yields, through the same expr API the
// processor uses (natively the real expr-lang; under the engine the uninterpreted stub)
func vEval(text string) (string, bool) {
	prog, err := expr.Compile(text)
	if err != nil {
		return "", false
	}
	res, err := expr.Run(prog, nil)
	if err != nil {
		return "", false
	}
	s, err := strconv2.FormatAny(res)
	return s, err == nil
}

type vExprHolder struct {
	F string `value:"x"`
}

// C18 (b) data flow: placeholder substitution, then expression evaluation, then binding
func VerifC18Expr() {
	pre, post := nd.StringUpTo(1), nd.StringUpTo(1)
	for _, s := range []string{pre, post} {
		for i := 0; i < len(s); i++ {
			nd.Assume(s[i] >= 'g' && s[i] <= 'z')
		}
	}
	e1 := []string{"", "1+", "2*"}[nd.Choose(3)]
	e2 := []string{"", "+1"}[nd.Choose(2)]
	dv := nd.Bytes(1)
	nd.Assume(dv[0] >= '1' && dv[0] <= '9')
	cfg := &vCfg{keys: []string{"k"}, vals: []any{dv}}
	ph := "${k}"
	if nd.Bool() { // the placeholder's key is itself given through a placeholder
		cfg = &vCfg{keys: []string{"j", "k1"}, vals: []any{"1", dv}}
		ph = "${k${j}}"
		nd.Cover("placeholder nested in a placeholder inside the expression")
	}
	tag := pre + "#{" + e1 + ph + e2 + "}" + post
	reg := support.DefaultDefinitionRegistry()
	va := NewValueAwarePostProcessors().(*valueAwarePostProcessors)
	h := &vExprHolder{}
	nd.Assert(va.PostProcessDefinitionRegistry(reg, h, "h") == nil, "scan ok")
	meta := reg.GetMetaByName("h")
	prop := component_definition.NewProperty(meta.Fields[0], component_definition.PropertyTypeConfiguration, "value", tag)
	props := []*component_definition.Property{prop}
	cq := vQuoteProc(cfg)
	ex := NewExpressionTagAwarePostProcessors()
	for _, p := range []container.InstantiationAwareComponentPostProcessor{cq, ex, va} {
		_, err := p.PostProcessProperties(props, h, "h")
		nd.Assert(err == nil, "C18: resolving, evaluating and binding a well-formed expression succeeds")
		if err != nil {
			return
		}
	}
	ev, ok := vEval(e1 + dv + e2)
	nd.Assert(ok, "oracle expression evaluates")
	want := pre + ev + post
	nd.Assert(prop.TagVal == want, "C18: the expression is evaluated on the text with all placeholders substituted")
	nd.Assert(h.F == want, "C18: the field receives the expression's result")
	if pre != "" {
		nd.Cover("literal text before the expression")
	}
	nd.Cover("evaluated")
}

// C18: an expression whose whole result is the empty string is a result like any other: the
// expression text is gone after the evaluation stage and the field does not receive it
func VerifC18EmptyResult() {
	// concrete operands: the engine asks the real expr-lang (symbolic expression text is an uninterpreted function)
	dv := []string{"1", "5", "8"}[nd.Choose(3)]
	cfg := &vCfg{keys: []string{"k"}, vals: []any{dv}}
	tag := "#{${k}>9?'x':''},required=false"
	if nd.Bool() {
		tag = "#{${k}<9?'':'x'},required=false"
	}
	reg := support.DefaultDefinitionRegistry()
	va := NewValueAwarePostProcessors().(*valueAwarePostProcessors)
	h := &vExprHolder{}
	nd.Assert(va.PostProcessDefinitionRegistry(reg, h, "h") == nil, "scan ok")
	meta := reg.GetMetaByName("h")
	prop := component_definition.NewProperty(meta.Fields[0], component_definition.PropertyTypeConfiguration, "value", tag)
	props := []*component_definition.Property{prop}
	cq := vQuoteProc(cfg)
	ex := NewExpressionTagAwarePostProcessors()
	for _, p := range []container.InstantiationAwareComponentPostProcessor{cq, ex, va} {
		_, err := p.PostProcessProperties(props, h, "h")
		nd.Assert(err == nil, "C18: resolving, evaluating and binding a well-formed expression succeeds")
		if err != nil {
			return
		}
	}
	nd.Assert(prop.TagVal == "", "C18: the expression is evaluated on the text with all placeholders substituted (an empty result is a result)")
	nd.Assert(h.F == "", "C18: the field receives the expression's result")
	nd.Cover("expression with an empty result")
}

type vValidHolder struct {
	F string `value:"x"`
}

// C18 (c) validation glue: fails exactly when the validator rejects the bound value
func VerifC18Validate() {
	s := nd.StringUpTo(nd.Param("N", 3))
	for i := 0; i < len(s); i++ {
		nd.Assume(s[i] >= 'g' && s[i] <= 'z')
	}
	ci := nd.Choose(7)
	constraint := []string{"required", "min=2", "max=1", "min=1,max=2", "alpha", "omitempty,min=2", "omitempty,max=1"}[ci]
	// in a tag, several constraints are written space-separated (commas separate tag arguments)
	constraintTag := []string{"required", "min=2", "max=1", "min=1 max=2", "alpha", "omitempty min=2", "omitempty max=1"}[ci]
	optional := nd.Bool()
	hasValidate := nd.Bool()
	usePrefix := nd.Bool() // the value is bound by prefix instead of through a value placeholder
	tag := "${k:}"
	if usePrefix {
		tag = "k"
		nd.Cover("validated value bound by prefix")
	}
	if hasValidate {
		tag += ",validate=" + constraintTag
	}
	if optional {
		tag += ",required=false"
	}
	cfg := &vCfg{keys: []string{"k"}, vals: []any{s}}
	reg := support.DefaultDefinitionRegistry()
	va := NewValueAwarePostProcessors().(*valueAwarePostProcessors)
	h := &vValidHolder{}
	nd.Assert(va.PostProcessDefinitionRegistry(reg, h, "h") == nil, "scan ok")
	meta := reg.GetMetaByName("h")
	tagName := "value"
	if usePrefix {
		tagName = "prefix"
	}
	prop := component_definition.NewProperty(meta.Fields[0], component_definition.PropertyTypeConfiguration, tagName, tag)
	props := []*component_definition.Property{prop}
	cq := vQuoteProc(cfg)
	vd := NewValidateAwarePostProcessors()
	binders := []container.InstantiationAwareComponentPostProcessor{cq, va}
	if usePrefix {
		pa := NewPropertiesAwarePostProcessors().(*propertiesAwarePostProcessors)
		pa.Configure = cfg
		binders = []container.InstantiationAwareComponentPostProcessor{cq, pa}
	}
	for _, p := range binders {
		_, err := p.PostProcessProperties(props, h, "h")
		if err != nil {
			nd.Cover("binding failed before validation")
			nd.Assert(s == "" && !optional, "C09: binding fails only for a required value that resolves to nothing")
			return
		}
	}
	nd.Assert(h.F == s, "C18: validation sees the bound value")
	if hasValidate && nd.Param("UNDEFINED", 1) == 1 && ci == 0 && nd.Bool() {
		// a validate argument naming a rule the validator does not know: start-up fails with an error, it does not panic
		bad := component_definition.NewProperty(meta.Fields[0], component_definition.PropertyTypeConfiguration, tagName, "k,validate=nosuchrule")
		var verr error
		panicked := nd.Catch(func() {
			_, verr = vd.PostProcessProperties([]*component_definition.Property{bad}, h, "h")
		})
		nd.Assert(!panicked, "C09: a failing validation makes start-up return an error - it does not panic")
		nd.Assert(verr != nil, "C18: a constraint that cannot be checked makes start-up fail")
		nd.Cover("undefined validation rule")
		return
	}
	_, err := vd.PostProcessProperties(props, h, "h")
	// oracle: the validator's own verdict on the bound value
	verdict := validator.New(validator.WithRequiredStructEnabled()).Var(h.F, constraint)
	if !hasValidate {
		nd.Assert(err == nil, "C18: a field without a validate argument never fails validation")
		return
	}
	if verdict != nil {
		nd.Cover("constraint violated")
	} else {
		nd.Cover("constraint satisfied")
	}
	nd.Assert((err != nil) == (verdict != nil), "C18: start-up fails exactly when the bound value violates the stated constraints")
}

type vExprNumHolder struct {
	S string  `value:"x"`
	F float64 `value:"x"`
}

// C18 (b'): a family of CONCRETE numeric expressions over configured numbers (evaluated by the
// real expr-lang on both sides): the field receives the expression's result, also for results
// of large magnitude.
func VerifC18ExprNumbers() {
	type tc struct {
		a, b any
		tmpl string
	}
	cases := []tc{
		{1.0e10, 1.0e9, "#{${a}*${b}}"},
		{3.0, 0.5, "#{${a}*${b}}"},
		{2, 3, "#{${a}+${b}}"},
		{7, 2, "#{${a}-${b}}"},
		{1.5, 2.25, "#{${a}+${b}}"},
		{4, 4, "#{${a}*${b}*1e18}"},
		{1, 2, "#{${a}<${b}}"},
	}
	c := cases[nd.Choose(len(cases))]
	cfg := &vCfg{keys: []string{"a", "b"}, vals: []any{c.a, c.b}}
	reg := support.DefaultDefinitionRegistry()
	va := NewValueAwarePostProcessors().(*valueAwarePostProcessors)
	h := &vExprNumHolder{}
	nd.Assert(va.PostProcessDefinitionRegistry(reg, h, "h") == nil, "scan ok")
	meta := reg.GetMetaByName("h")
	toFloat := nd.Bool()
	fld := meta.Fields[0]
	if toFloat {
		fld = meta.Fields[1]
	}
	prop := component_definition.NewProperty(fld, component_definition.PropertyTypeConfiguration, "value", c.tmpl)
	props := []*component_definition.Property{prop}
	cq := vQuoteProc(cfg)
	ex := NewExpressionTagAwarePostProcessors()
	// the oracle: substitute, then evaluate with the same library
	sa, _ := strconv2.FormatAny(c.a)
	sb, _ := strconv2.FormatAny(c.b)
	text := ""
	for i := 2; i < len(c.tmpl)-1; i++ { // strip "#{" and "}" and substitute ${a} / ${b}
		if i+3 < len(c.tmpl) && c.tmpl[i] == '$' && c.tmpl[i+1] == '{' {
			if c.tmpl[i+2] == 'a' {
				text += sa
			} else {
				text += sb
			}
			i += 3
			continue
		}
		text += string(c.tmpl[i])
	}
	want, ok := vEval(text)
	nd.Assert(ok, "oracle expression evaluates")
	for _, p := range []container.InstantiationAwareComponentPostProcessor{cq, ex} {
		_, err := p.PostProcessProperties(props, h, "h")
		nd.Assert(err == nil, "C18: resolving and evaluating a well-formed expression succeeds")
		if err != nil {
			return
		}
	}
	nd.Observe("tagval", prop.TagVal)
	nd.Assert(prop.TagVal == want, "C18: the field receives the expression's result (evaluated on the substituted text)")
	if _, isBool := c.a.(int); isBool && c.tmpl == "#{${a}<${b}}" {
		nd.Cover("boolean result")
		return
	}
	_, err := va.PostProcessProperties(props, h, "h")
	nd.Assert(err == nil, "C18: binding the expression's result succeeds")
	nd.Cover("numeric expression evaluated")
}

type vEndpoint struct {
	Host string
	Port int
}

type vClientCfg struct {
	Name     string    `validate:"required"`
	Endpoint vEndpoint `validate:"required"`
	Alias    string    `validate:"omitempty,min=2"`
}

type vStructHolder struct {
	C vClientCfg  `value:"x"`
	P *vClientCfg `value:"x"`
}

// C18 (c') validation of a bound struct (by value and through a pointer): start-up fails exactly
// when the real validator, configured as documented (required applies to struct-typed fields too),
// rejects the bound value.  Binding itself is not the subject: the bound value is put in place directly.
func VerifC18ValidateStruct() {
	pick := func(opts ...string) string { return opts[nd.Choose(len(opts))] }
	v := vClientCfg{Name: pick("", "n"), Alias: pick("", "a", "ab")}
	if nd.Bool() {
		v.Endpoint = vEndpoint{Host: pick("", "h"), Port: nd.Choose(2)}
	}
	reg := support.DefaultDefinitionRegistry()
	va := NewValueAwarePostProcessors().(*valueAwarePostProcessors)
	h := &vStructHolder{}
	nd.Assert(va.PostProcessDefinitionRegistry(reg, h, "h") == nil, "scan ok")
	meta := reg.GetMetaByName("h")
	byPtr := nd.Bool()
	fld := meta.Fields[0]
	h.C = v
	nilPtr := false
	if byPtr {
		fld = meta.Fields[1]
		h.P = &v
		if nd.Bool() {
			// an optional struct pointer whose value resolved to nothing: nothing was bound
			h.P = nil
			nilPtr = true
			nd.Cover("validated struct pointer left nil")
		}
	}
	hasValidate := nd.Bool()
	tag := "x"
	if hasValidate {
		tag += ",validate"
	}
	prop := component_definition.NewProperty(fld, component_definition.PropertyTypeConfiguration, "value", tag)
	vd := NewValidateAwarePostProcessors()
	_, err := vd.PostProcessProperties([]*component_definition.Property{prop}, h, "h")
	verdict := validator.New(validator.WithRequiredStructEnabled()).Struct(v)
	if nilPtr {
		nd.Assert(err == nil, "C18: a field to which nothing was bound violates no constraint (start-up never fails otherwise)")
		return
	}
	if !hasValidate {
		nd.Assert(err == nil, "C18: a field without a validate argument never fails validation")
		return
	}
	if verdict != nil {
		nd.Cover("struct constraint violated")
	} else {
		nd.Cover("struct constraint satisfied")
	}
	if v.Name != "" && v.Endpoint == (vEndpoint{}) {
		nd.Cover("only the required nested struct is empty")
		nd.Assert(verdict != nil, "oracle: required applies to a struct-typed field")
	}
	nd.Assert((err != nil) == (verdict != nil), "C18: start-up fails exactly when the bound struct violates the stated constraints")
}

// C18 (b”): several expressions in one tag, literal text (also a closing brace) between and after
// them - concrete texts, evaluated by the real expr-lang on both sides; every expression is
// evaluated on its own substituted text and the field receives the pieces in place.
func VerifC18MultiExpr() {
	type tc struct {
		tmpl  string
		parts []string // alternating literal, expression, literal, ... (expressions with ${a}/${b} already substituted)
	}
	cases := []tc{
		{"#{${a}+1}-#{${b}*2}", []string{"", "8000+1", "-", "40*2", ""}},
		{"#{${a}}://h:#{${b}}", []string{"", "8000", "://h:", "40", ""}},
		{"x#{1+1}}y", []string{"x", "1+1", "}y"}},
		{"#{${a}>${b}}&#{1+1}", []string{"", "8000>40", "&", "1+1", ""}},
	}
	c := cases[nd.Choose(len(cases))]
	cfg := &vCfg{keys: []string{"a", "b"}, vals: []any{8000, 40}}
	reg := support.DefaultDefinitionRegistry()
	va := NewValueAwarePostProcessors().(*valueAwarePostProcessors)
	h := &vExprHolder{}
	nd.Assert(va.PostProcessDefinitionRegistry(reg, h, "h") == nil, "scan ok")
	meta := reg.GetMetaByName("h")
	prop := component_definition.NewProperty(meta.Fields[0], component_definition.PropertyTypeConfiguration, "value", c.tmpl)
	props := []*component_definition.Property{prop}
	want := ""
	for i, p := range c.parts {
		if i%2 == 0 {
			want += p
			continue
		}
		ev, ok := vEval(p)
		nd.Assert(ok, "oracle expression evaluates")
		want += ev
	}
	cq := vQuoteProc(cfg)
	ex := NewExpressionTagAwarePostProcessors()
	for _, p := range []container.InstantiationAwareComponentPostProcessor{cq, ex, va} {
		_, err := p.PostProcessProperties(props, h, "h")
		nd.Assert(err == nil, "C18: resolving, evaluating and binding well-formed expressions succeeds")
		if err != nil {
			return
		}
	}
	nd.Assert(prop.TagVal == want, "C18: every expression of a tag is evaluated on its own substituted text")
	nd.Assert(h.F == want, "C18: the field receives the expressions' results in place")
	nd.Cover("several expressions in one tag")
}

type vPtrHolder struct {
	PS *string `value:"x"`
	PI *int    `value:"x"`
}

// C18 (c”): a pointer-typed scalar field is validated as what was bound - the pointer: for the
// validator a non-nil pointer "has a value" even when it points at a zero value.
func VerifC18ValidatePointer() {
	reg := support.DefaultDefinitionRegistry()
	va := NewValueAwarePostProcessors().(*valueAwarePostProcessors)
	h := &vPtrHolder{}
	nd.Assert(va.PostProcessDefinitionRegistry(reg, h, "h") == nil, "scan ok")
	meta := reg.GetMetaByName("h")
	useInt := nd.Bool()
	isNil := nd.Bool()
	var bound any
	fld := meta.Fields[0]
	constraint, constraintTag := "", ""
	if useInt {
		fld = meta.Fields[1]
		ci := nd.Choose(3)
		constraint = []string{"required", "omitempty,gt=5", "gt=5"}[ci]
		constraintTag = []string{"required", "omitempty gt=5", "gt=5"}[ci]
		if !isNil {
			v := []int{0, 7}[nd.Choose(2)]
			h.PI = &v
		}
		bound = h.PI
	} else {
		ci := nd.Choose(3)
		constraint = []string{"required", "omitempty,min=2", "min=2"}[ci]
		constraintTag = []string{"required", "omitempty min=2", "min=2"}[ci]
		if !isNil {
			v := []string{"", "a", "abc"}[nd.Choose(3)]
			h.PS = &v
		}
		bound = h.PS
	}
	prop := component_definition.NewProperty(fld, component_definition.PropertyTypeConfiguration, "value", "x,validate="+constraintTag)
	vd := NewValidateAwarePostProcessors()
	var err error
	panicked := nd.Catch(func() {
		_, err = vd.PostProcessProperties([]*component_definition.Property{prop}, h, "h")
	})
	nd.Assert(!panicked, "C09: validation never panics")
	verdict := validator.New(validator.WithRequiredStructEnabled()).Var(bound, constraint)
	if verdict != nil {
		nd.Cover("pointer constraint violated")
	} else {
		nd.Cover("pointer constraint satisfied")
	}
	nd.Assert((err != nil) == (verdict != nil), "C18: start-up fails exactly when the bound (pointer) value violates the stated constraints")
}

type vTwoValid struct {
	A string `value:"x"`
	B string `value:"x"`
	C string `value:"x"`
}

// C18 (c3): a component with several validated fields fails start-up exactly when ANY of them
// violates its constraint, wherever the violating field stands.
func VerifC18SeveralValidated() {
	reg := support.DefaultDefinitionRegistry()
	va := NewValueAwarePostProcessors().(*valueAwarePostProcessors)
	h := &vTwoValid{}
	nd.Assert(va.PostProcessDefinitionRegistry(reg, h, "h") == nil, "scan ok")
	meta := reg.GetMetaByName("h")
	vals := []string{"", "ab"}
	h.A, h.B, h.C = vals[nd.Choose(2)], vals[nd.Choose(2)], vals[nd.Choose(2)]
	var props []*component_definition.Property
	for _, f := range meta.Fields {
		props = append(props, component_definition.NewProperty(f, component_definition.PropertyTypeConfiguration, "value", "x,validate=required"))
	}
	nd.Assert(len(props) == 3, "three validated fields")
	vd := NewValidateAwarePostProcessors()
	_, err := vd.PostProcessProperties(props, h, "h")
	violated := h.A == "" || h.B == "" || h.C == ""
	if violated {
		nd.Cover("one of several validated fields violates its constraint")
	}
	nd.Assert((err != nil) == violated, "C18: start-up fails exactly when some bound value violates its constraints, whichever field it is")
}

// C18 (b3): the same expression tag under two configurations (two containers in one process):
// each start evaluates the expression on ITS substituted text.
func VerifC18TwoConfigurations() {
	run := func(a int) string {
		cfg := &vCfg{keys: []string{"a"}, vals: []any{a}}
		reg := support.DefaultDefinitionRegistry()
		va := NewValueAwarePostProcessors().(*valueAwarePostProcessors)
		h := &vExprHolder{}
		nd.Assert(va.PostProcessDefinitionRegistry(reg, h, "h") == nil, "scan ok")
		prop := component_definition.NewProperty(reg.GetMetaByName("h").Fields[0], component_definition.PropertyTypeConfiguration, "value", "#{${a}/2+1}")
		props := []*component_definition.Property{prop}
		for _, p := range []container.InstantiationAwareComponentPostProcessor{vQuoteProc(cfg), NewExpressionTagAwarePostProcessors(), va} {
			_, err := p.PostProcessProperties(props, h, "h")
			nd.Assert(err == nil, "C18: resolving, evaluating and binding a well-formed expression succeeds")
		}
		return h.F
	}
	first := []int{2, 8}[nd.Choose(2)]
	second := 10 - first
	r1, r2 := run(first), run(second)
	w1, _ := vEval([]string{"2/2+1", "8/2+1"}[first/8])
	w2, _ := vEval([]string{"2/2+1", "8/2+1"}[second/8])
	nd.Assert(r1 == w1, "C18: the field receives the expression's result")
	nd.Assert(r2 == w2, "C18: an expression is evaluated on the text substituted from the CURRENT configuration, also for a tag text seen before")
	nd.Cover("same tag under two configurations")
}
