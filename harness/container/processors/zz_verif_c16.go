//go:build verif

package processors

import (
	"github.com/go-kid/ioc/component_definition"
	"github.com/go-kid/ioc/configure"
	"github.com/go-kid/ioc/configure/binder"
	"github.com/go-kid/ioc/configure/loader"
	"github.com/go-kid/ioc/util/el"
	"github.com/go-kid/ioc/zzverif/models"
	"github.com/go-kid/ioc/zzverif/nd"
)

// EL harness: the real configQuoteAwarePostProcessors.PostProcessProperties and
// el.ReplaceAllContent/MatchString, strconv2.ParseAny/FormatAny; regexp through
// the Go-source models of the two placeholder patterns.

// vCfg: a configuration = a function from keys to values, built lazily: the first
// lookup of a key decides its (symbolic) value, later lookups of an equal key agree.
type vCfg struct {
	configure.Configure
	keys      []string
	vals      []any
	fixed     map[string]any // concrete table (structured harness)
	maxLen    int
	mode      int // 0 = fixed table, 1 = lazy symbolic
	plainOnly bool
	loneQuote bool // the first placeholder's default is a single quote character (finding class)
}

func (c *vCfg) Get(path string) any {
	if c.mode == 0 {
		for i, k := range c.keys {
			if k == path {
				return c.vals[i]
			}
		}
		return nil
	}
	for i, k := range c.keys {
		if k == path {
			return c.vals[i]
		}
	}
	var v any
	if nd.Bool() {
		sv := nd.StringUpTo(c.maxLen)
		if c.plainOnly {
			nd.Assume(vPlain(sv))
		}
		v = sv
	}
	c.keys = append(c.keys, path)
	c.vals = append(c.vals, v)
	if v == nil {
		// known finding class: strconv2.ParseAny panics on a text that is one quote character
		nd.Known("C16/lone-quote-default", c.loneQuote)
	}
	return v
}

// vLoneQuoteDefault: the first placeholder of tag has a default that is exactly one quote character
func vLoneQuoteDefault(tag string) bool {
	p := models.FindBraced('$', tag)
	if p == "" {
		return false
	}
	content := p[2 : len(p)-1]
	for i := 0; i < len(content); i++ {
		if content[i] == ':' {
			d := content[i+1:]
			return d == "'" || d == "\""
		}
	}
	return false
}

// vFirstKeyEmpty: the first placeholder of tag has an empty key (${:...})
func vFirstKeyEmpty(tag string) bool {
	p := models.FindBraced('$', tag)
	return len(p) >= 4 && p[2] == ':'
}

func vPlain(s string) bool {
	for i := 0; i < len(s); i++ {
		b := s[i]
		if b == '$' || b == '{' || b == '}' || b == '#' || b == ',' {
			return false
		}
	}
	return true
}

// default texts the oracle demands verbatim: letters and blanks only (number-like, boolean-like,
// quoted and bracketed defaults are re-formatted by ParseAny/FormatAny: see C17)
func vLetters(s string) bool {
	for i := 0; i < len(s); i++ {
		b := s[i]
		if !(b >= 'g' && b <= 'z') && b != ' ' {
			return false
		}
	}
	return true
}

// vPlainWord: a text ParseAny/FormatAny leave unchanged (letters, '@' and 'x' 'z' 'd' only here)
func vPlainWord(s string) bool {
	for i := 0; i < len(s); i++ {
		b := s[i]
		if !(b >= 'a' && b <= 'z') && b != '@' {
			return false
		}
	}
	return len(s) > 0
}

func vQuoteProc(cfg configure.Configure) *configQuoteAwarePostProcessors {
	return &configQuoteAwarePostProcessors{Configure: cfg, el: el.NewQuote()}
}

// C16 faithfulness: pre ${a} mid ${b:d} post  with a present/absent/empty-map/empty-list
func VerifC16Structured() {
	L := nd.Param("L", 1)
	pre, mid, post := nd.StringUpTo(L), nd.StringUpTo(L), nd.StringUpTo(L)
	nd.Assume(vPlain(pre) && vPlain(mid) && vPlain(post))
	d := nd.StringUpTo(nd.Param("D", 2))
	nd.Assume(vLetters(d))
	cfg := &vCfg{}
	// key a: present with a symbolic string value (no placeholder syntax inside)
	va := nd.StringUpTo(nd.Param("V", 2))
	nd.Assume(vPlain(va) && len(va) > 0)
	cfg.keys = append(cfg.keys, "a")
	cfg.vals = append(cfg.vals, va)
	// key b: absent / empty map / empty list / present
	bKind := nd.Choose(5)
	var vb string
	switch bKind {
	case 4:
		// configured, with the empty string as its value: that is a configured value, not an absent key
		cfg.keys = append(cfg.keys, "b")
		cfg.vals = append(cfg.vals, "")
		nd.Cover("configured empty string")
	case 1:
		cfg.keys = append(cfg.keys, "b")
		cfg.vals = append(cfg.vals, map[string]any{})
	case 2:
		cfg.keys = append(cfg.keys, "b")
		cfg.vals = append(cfg.vals, []any{})
	case 3:
		vb = nd.StringUpTo(nd.Param("V", 2))
		nd.Assume(vPlain(vb) && len(vb) > 0)
		cfg.keys = append(cfg.keys, "b")
		cfg.vals = append(cfg.vals, vb)
	}
	hasDefault := nd.Bool()
	if hasDefault && nd.Bool() {
		d = d + ":" + d // a default may itself contain the key/default separator
		nd.Cover("default containing a colon")
	}
	tag := pre + "${a}" + mid + "${b"
	if hasDefault {
		tag += ":" + d
	}
	tag += "}" + post
	// optionally the same key is quoted once more in the same tag, with a default of its own
	again := nd.Choose(4) // 0 no, 1 without default, 2 default "q", 3 default "rs"
	againDefault := []string{"", "", "q", "rs"}[again]
	if again > 0 {
		nd.Cover("one key quoted twice with different defaults")
		tag += "${b"
		if again > 1 {
			tag += ":" + againDefault
		}
		tag += "}"
	}
	prop := component_definition.NewProperty(nil, component_definition.PropertyTypeConfiguration, "value", tag)
	p := vQuoteProc(cfg)
	_, err := p.PostProcessProperties([]*component_definition.Property{prop}, nil, "c")
	nd.Assert(err == nil, "C16: resolution of plain placeholders succeeds")
	want := pre + va + mid
	if bKind == 3 {
		want += vb
		nd.Cover("configured value used")
	} else if bKind == 4 {
		// nothing to add: the configured value is the empty string
	} else if hasDefault {
		want += d
		nd.Cover("default used")
	} else {
		nd.Cover("absent without default")
	}
	want += post
	if again > 0 {
		if bKind == 3 {
			want += vb
		} else if bKind != 4 {
			want += againDefault
		}
	}
	nd.Observe("tagval", prop.TagVal)
	nd.Assert(prop.TagVal == want, "C16: each placeholder is replaced by the configured value, else by the default")
	nd.Assert(!p.el.MatchString(prop.TagVal), "C16: no placeholder is left after resolution")
}

// C16 nesting: ${x${i}} -> the inner placeholder selects the outer key
func VerifC16Nested() {
	cfg := &vCfg{}
	vi := nd.Bytes(1)
	nd.Assume(vi == "b" || vi == "c")
	cfg.keys = []string{"i", "xb"}
	cfg.vals = []any{vi, "OUT"}
	prop := component_definition.NewProperty(nil, component_definition.PropertyTypeConfiguration, "value", "${x${i}:dflt}")
	p := vQuoteProc(cfg)
	_, err := p.PostProcessProperties([]*component_definition.Property{prop}, nil, "c")
	nd.Assert(err == nil, "C16: nested resolution succeeds")
	if vi == "b" {
		nd.Cover("nested key present")
		nd.Assert(prop.TagVal == "OUT", "C16: a placeholder nested in a key selects the outer key")
	} else {
		nd.Cover("nested key absent")
		nd.Assert(prop.TagVal == "dflt", "C16: an absent nested key falls back to the default")
	}
}

// C16 totality: any tag text, any configuration of plain string values: no panic, no placeholder left
func VerifC16Total() {
	tag := nd.StringUpTo(nd.Param("N", 5))
	if nd.Param("ASCII", 0) == 1 {
		// stated bound of the longer run: ASCII bytes only (the case-folding model is byte-wise)
		for i := 0; i < len(tag); i++ {
			nd.Assume(tag[i] < 0x80)
		}
	}
	cfg := &vCfg{mode: 1, maxLen: nd.Param("M", 1), plainOnly: true}
	cfg.loneQuote = vLoneQuoteDefault(component_definition.NewProperty(nil, component_definition.PropertyTypeConfiguration, "value", tag).TagStr)
	if cfg.loneQuote && vFirstKeyEmpty(tag) {
		// an empty key is never looked up (it names nothing): the finding class is entered here
		nd.Known("C16/lone-quote-default", true)
	}
	prop := component_definition.NewProperty(nil, component_definition.PropertyTypeConfiguration, "value", tag)
	p := vQuoteProc(cfg)
	_, err := p.PostProcessProperties([]*component_definition.Property{prop}, nil, "c")
	if err != nil {
		nd.Cover("resolution reports an error")
		return
	}
	nd.Cover("resolution terminates")
	nd.Assert(!p.el.MatchString(prop.TagVal), "C16: no placeholder is left after resolution")
}

// C16 termination: configured values that themselves contain placeholders (self
// reference, mutual reference, growing text).  The step budget is the unwinding
// assertion: resolution must end with an error or a value, never loop.
func VerifC16Cyclic() {
	cfg := &vCfg{}
	// references: 0 none, 1 ${a}, 2 ${b}, 3 ${c}, 4 ${n:d} (absent key with a default)
	refText := []string{"", "${a}", "${b}", "${c}", "${n:d}"}
	type val struct {
		x      string
		r1, r2 int
	}
	mk := func() val {
		return val{x: []string{"", "x"}[nd.Choose(2)], r1: nd.Choose(5), r2: nd.Choose(5)}
	}
	va, vb := mk(), mk()
	vc := []string{"", "z"}[nd.Choose(2)]
	text := func(v val) string { return v.x + refText[v.r1] + refText[v.r2] }
	cfg.keys = []string{"a", "b", "c"}
	cfg.vals = []any{text(va), text(vb), vc}
	// the tag refers to a, optionally also directly to a key that a's value refers to (a diamond)
	tagKind := nd.Choose(nd.Param("TAGS", 3))
	tag := []string{"${a}", "${c}@${a}", "${a}@${b}"}[tagKind]
	prop := component_definition.NewProperty(nil, component_definition.PropertyTypeConfiguration, "value", tag)
	p := vQuoteProc(cfg)
	_, err := p.PostProcessProperties([]*component_definition.Property{prop}, nil, "c")
	// oracle: is a cycle reachable from the tag?
	refs := func(v val, k int) bool { return v.r1 == k || v.r2 == k }
	aSelf, bSelf := refs(va, 1), refs(vb, 2)
	aToB, bToA := refs(va, 2), refs(vb, 1)
	usesB := aToB || tagKind == 2
	cyclic := aSelf || (usesB && bSelf) || (aToB && bToA) || (tagKind == 2 && bToA && aSelf)
	if !cyclic {
		nd.Cover("acyclic references (chains and diamonds)")
		nd.Assert(err == nil, "C16: references without a cycle resolve, also when a key is referenced both directly and through another key's value")
	}
	if err != nil {
		nd.Cover("circular reference reported as an error")
		return
	}
	nd.Cover("resolution terminates")
	nd.Assert(!p.el.MatchString(prop.TagVal), "C16: no placeholder is left after resolution")
	if !cyclic {
		// expected expansion of an acyclic configuration
		var expand func(v val, depth int) string
		one := func(r int, depth int) string {
			switch r {
			case 1:
				return expand(va, depth+1)
			case 2:
				return expand(vb, depth+1)
			case 3:
				return vc
			case 4:
				return "d"
			}
			return ""
		}
		expand = func(v val, depth int) string {
			if depth > 4 {
				return "?"
			}
			return v.x + one(v.r1, depth) + one(v.r2, depth)
		}
		want := expand(va, 0)
		switch tagKind {
		case 1:
			want = vc + "@" + want
		case 2:
			want = want + "@" + expand(vb, 0)
		}
		nd.Observe("expanded", prop.TagVal)
		nd.Assert(prop.TagVal == want || want == "" || !vPlainWord(want), "C16: every placeholder is replaced by its configured value, transitively")
	}
}

// C16 termination on FRAGMENTS: the configured value of y and the tag are sequences of the pieces
// "${y", "}" and "y", so that complete placeholders only come into being when a value is spliced
// into the surrounding text (no single replacement text contains one).  Resolution must end - with
// a value that holds no placeholder, or with an error - whatever the pieces are.
func VerifC16Fragments() {
	pieces := []string{"${y", "}", "y"}
	k := nd.Param("K", 4)
	val, tag := "", ""
	for i := 0; i < k; i++ {
		val += pieces[nd.Choose(3)]
	}
	for i := 0; i < k; i++ {
		tag += pieces[nd.Choose(3)]
	}
	cfg := &vCfg{}
	cfg.keys = []string{"y"}
	cfg.vals = []any{val}
	prop := component_definition.NewProperty(nil, component_definition.PropertyTypeConfiguration, "value", tag)
	p := vQuoteProc(cfg)
	_, err := p.PostProcessProperties([]*component_definition.Property{prop}, nil, "c")
	if err != nil {
		nd.Cover("growing text reported as an error")
		return
	}
	nd.Cover("resolution terminates")
	nd.Assert(!p.el.MatchString(prop.TagVal), "C16: no placeholder is left after resolution")
}

// C16 with the real binder: a placeholder whose key is empty names nothing, so its default applies -
// the real ViperBinder answers the WHOLE configuration for the empty path (used for root binding).
func VerifC16EmptyKey() {
	cfg := configure.NewConfigure()
	cfg.SetBinder(binder.NewViperBinder("yaml"))
	cfg.AddLoaders(loader.NewRawLoader([]byte("a: one\nb:\n  c: two\n")))
	nd.Assert(cfg.Initialize() == nil, "loading succeeds")
	tag := []string{"${:fallback}", "x${:d}y", "${a}-${:d}"}[nd.Choose(3)]
	want := []string{"fallback", "xdy", "one-d"}[0]
	switch tag {
	case "x${:d}y":
		want = "xdy"
	case "${a}-${:d}":
		want = "one-d"
	}
	prop := component_definition.NewProperty(nil, component_definition.PropertyTypeConfiguration, "value", tag)
	p := vQuoteProc(cfg)
	_, err := p.PostProcessProperties([]*component_definition.Property{prop}, nil, "c")
	nd.Assert(err == nil, "C16: resolution of plain placeholders succeeds")
	nd.Assert(prop.TagVal == want, "C16: a placeholder whose key is not configured is replaced by its default")
	nd.Cover("placeholder with an empty key")
}
