//go:build verif

package processors

import (
	"github.com/go-kid/ioc/component_definition"
	"github.com/go-kid/ioc/configure"
	"github.com/go-kid/ioc/util/el"
	"github.com/go-kid/ioc/zzverif/models"
	"github.com/go-kid/ioc/zzverif/nd"
)

// EL harness: the real configQuoteAwarePostProcessors.PostProcessProperties and
// el.ReplaceAllContent/MatchString, strconv2.ParseAny/FormatAny; regexp through
// the Go-source models of the two placeholder patterns.

// vCfg: a configuration = a function from keys to values, built lazily: the first
// lookup of a key decides its (symbolic) value, later lookups of an equal key agree.
type vCfg struct {
	configure.Configure
	keys      []string
	vals      []any
	fixed     map[string]any // concrete table (structured harness)
	maxLen    int
	mode      int // 0 = fixed table, 1 = lazy symbolic
	plainOnly bool
	loneQuote bool // the first placeholder's default is a single quote character (finding class)
}

func (c *vCfg) Get(path string) any {
	if c.mode == 0 {
		for i, k := range c.keys {
			if k == path {
				return c.vals[i]
			}
		}
		return nil
	}
	for i, k := range c.keys {
		if k == path {
			return c.vals[i]
		}
	}
	var v any
	if nd.Bool() {
		sv := nd.StringUpTo(c.maxLen)
		if c.plainOnly {
			nd.Assume(vPlain(sv))
		}
		v = sv
	}
	c.keys = append(c.keys, path)
	c.vals = append(c.vals, v)
	if v == nil {
		// known finding class: strconv2.ParseAny panics on a text that is one quote character
		nd.Known("C16/lone-quote-default", c.loneQuote)
	}
	return v
}

// vLoneQuoteDefault: the first placeholder of tag has a default that is exactly one quote character
func vLoneQuoteDefault(tag string) bool {
	p := models.FindBraced('$', tag)
	if p == "" {
		return false
	}
	content := p[2 : len(p)-1]
	for i := 0; i < len(content); i++ {
		if content[i] == ':' {
			d := content[i+1:]
			return d == "'" || d == "\""
		}
	}
	return false
}

func vPlain(s string) bool {
	for i := 0; i < len(s); i++ {
		b := s[i]
		if b == '$' || b == '{' || b == '}' || b == '#' || b == ',' {
			return false
		}
	}
	return true
}

// default texts the oracle demands verbatim: letters and blanks only (number-like, boolean-like,
// quoted and bracketed defaults are re-formatted by ParseAny/FormatAny: see C17)
func vLetters(s string) bool {
	for i := 0; i < len(s); i++ {
		b := s[i]
		if !(b >= 'g' && b <= 'z') && b != ' ' {
			return false
		}
	}
	return true
}

func vQuoteProc(cfg configure.Configure) *configQuoteAwarePostProcessors {
	return &configQuoteAwarePostProcessors{Configure: cfg, el: el.NewQuote()}
}

// C16 faithfulness: pre ${a} mid ${b:d} post  with a present/absent/empty-map/empty-list
func VerifC16Structured() {
	L := nd.Param("L", 1)
	pre, mid, post := nd.StringUpTo(L), nd.StringUpTo(L), nd.StringUpTo(L)
	nd.Assume(vPlain(pre) && vPlain(mid) && vPlain(post))
	d := nd.StringUpTo(nd.Param("D", 2))
	nd.Assume(vLetters(d))
	cfg := &vCfg{}
	// key a: present with a symbolic string value (no placeholder syntax inside)
	va := nd.StringUpTo(nd.Param("V", 2))
	nd.Assume(vPlain(va) && len(va) > 0)
	cfg.keys = append(cfg.keys, "a")
	cfg.vals = append(cfg.vals, va)
	// key b: absent / empty map / empty list / present
	bKind := nd.Choose(4)
	var vb string
	switch bKind {
	case 1:
		cfg.keys = append(cfg.keys, "b")
		cfg.vals = append(cfg.vals, map[string]any{})
	case 2:
		cfg.keys = append(cfg.keys, "b")
		cfg.vals = append(cfg.vals, []any{})
	case 3:
		vb = nd.StringUpTo(nd.Param("V", 2))
		nd.Assume(vPlain(vb) && len(vb) > 0)
		cfg.keys = append(cfg.keys, "b")
		cfg.vals = append(cfg.vals, vb)
	}
	hasDefault := nd.Bool()
	if hasDefault && nd.Bool() {
		d = d + ":" + d // a default may itself contain the key/default separator
		nd.Cover("default containing a colon")
	}
	tag := pre + "${a}" + mid + "${b"
	if hasDefault {
		tag += ":" + d
	}
	tag += "}" + post
	prop := component_definition.NewProperty(nil, component_definition.PropertyTypeConfiguration, "value", tag)
	p := vQuoteProc(cfg)
	_, err := p.PostProcessProperties([]*component_definition.Property{prop}, nil, "c")
	nd.Assert(err == nil, "C16: resolution of plain placeholders succeeds")
	want := pre + va + mid
	if bKind == 3 {
		want += vb
		nd.Cover("configured value used")
	} else if hasDefault {
		want += d
		nd.Cover("default used")
	} else {
		nd.Cover("absent without default")
	}
	want += post
	nd.Observe("tagval", prop.TagVal)
	nd.Assert(prop.TagVal == want, "C16: each placeholder is replaced by the configured value, else by the default")
	nd.Assert(!p.el.MatchString(prop.TagVal), "C16: no placeholder is left after resolution")
}

// C16 nesting: ${x${i}} -> the inner placeholder selects the outer key
func VerifC16Nested() {
	cfg := &vCfg{}
	vi := nd.Bytes(1)
	nd.Assume(vi == "b" || vi == "c")
	cfg.keys = []string{"i", "xb"}
	cfg.vals = []any{vi, "OUT"}
	prop := component_definition.NewProperty(nil, component_definition.PropertyTypeConfiguration, "value", "${x${i}:dflt}")
	p := vQuoteProc(cfg)
	_, err := p.PostProcessProperties([]*component_definition.Property{prop}, nil, "c")
	nd.Assert(err == nil, "C16: nested resolution succeeds")
	if vi == "b" {
		nd.Cover("nested key present")
		nd.Assert(prop.TagVal == "OUT", "C16: a placeholder nested in a key selects the outer key")
	} else {
		nd.Cover("nested key absent")
		nd.Assert(prop.TagVal == "dflt", "C16: an absent nested key falls back to the default")
	}
}

// C16 totality: any tag text, any configuration of plain string values: no panic, no placeholder left
func VerifC16Total() {
	tag := nd.StringUpTo(nd.Param("N", 5))
	if nd.Param("ASCII", 0) == 1 {
		// stated bound of the longer run: ASCII bytes only (the case-folding model is byte-wise)
		for i := 0; i < len(tag); i++ {
			nd.Assume(tag[i] < 0x80)
		}
	}
	cfg := &vCfg{mode: 1, maxLen: nd.Param("M", 1), plainOnly: true}
	cfg.loneQuote = vLoneQuoteDefault(component_definition.NewProperty(nil, component_definition.PropertyTypeConfiguration, "value", tag).TagStr)
	prop := component_definition.NewProperty(nil, component_definition.PropertyTypeConfiguration, "value", tag)
	p := vQuoteProc(cfg)
	_, err := p.PostProcessProperties([]*component_definition.Property{prop}, nil, "c")
	if err != nil {
		nd.Cover("resolution reports an error")
		return
	}
	nd.Cover("resolution terminates")
	nd.Assert(!p.el.MatchString(prop.TagVal), "C16: no placeholder is left after resolution")
}

// C16 termination: configured values that themselves contain placeholders (self
// reference, mutual reference, growing text).  The step budget is the unwinding
// assertion: resolution must end with an error or a value, never loop.
func VerifC16Cyclic() {
	cfg := &vCfg{}
	ref := func() string {
		return []string{"", "${a}", "${b}", "${c}", "${n:d}"}[nd.Choose(5)]
	}
	mk := func() string {
		x := []string{"", "x"}[nd.Choose(2)]
		return x + ref() + ref()
	}
	cfg.keys = []string{"a", "b", "c"}
	cfg.vals = []any{mk(), mk(), []string{"", "z"}[nd.Choose(2)]}
	prop := component_definition.NewProperty(nil, component_definition.PropertyTypeConfiguration, "value", "${a}")
	p := vQuoteProc(cfg)
	_, err := p.PostProcessProperties([]*component_definition.Property{prop}, nil, "c")
	if err != nil {
		nd.Cover("circular reference reported as an error")
		return
	}
	nd.Cover("resolution terminates")
	nd.Assert(!p.el.MatchString(prop.TagVal), "C16: no placeholder is left after resolution")
}
