//go:build verif

package processors

import (
	"github.com/go-kid/ioc/component_definition"
	"github.com/go-kid/ioc/container"
	"github.com/go-kid/ioc/container/support"
	"github.com/go-kid/ioc/zzverif/models"
	"github.com/go-kid/ioc/zzverif/nd"
	"strconv"
)

// VAL harness: the real valueAware (value + prop shorthand), propertiesAware (prefix)
// and configQuote processors, Property.Unmarshall down to the mapstructure call
// (contract stub: string -> string identity), strconv2.ParseAny/FormatAny.

type vValHolder struct {
	A string `value:"${k}"`
	B string `prop:"k"`
	C string // literal: value:"<s>" (property built with the symbolic text)
	D string `prefix:"k"`
	E string `value:"${k},required=false"`
	G string `value:"v${k}w"` // the configured string inside surrounding literal text
}

func vASCIIValue(s string) bool {
	for i := 0; i < len(s); i++ {
		b := s[i]
		if b >= 0x80 || b == '{' || b == '}' || b == '[' || b == ']' || b == ',' || b == '(' || b == ')' {
			return false
		}
	}
	return true
}

func vLower(s string) string { return models.M_strings_ToLower(s) }

func VerifC17String() {
	s := nd.StringUpTo(nd.Param("N", 3))
	nd.Assume(vASCIIValue(s))
	// finding classes of the value path (ParseAny ∘ FormatAny is lossy for strings)
	switch {
	case nd.Known("C17/lone-quote-panics", s == "'" || s == "\""):
		s = nd.Concretize(s)
	case nd.Known("C17/empty-string-required", s == ""):
	case nd.Known("C17/number-like-string-reformatted", models.MatchNumber(s)):
		s = nd.Concretize(s)
	case nd.Known("C17/boolean-like-string-reformatted", vLower(s) == "true" || vLower(s) == "false"):
		s = nd.Concretize(s)
	case nd.Known("C17/quoted-string-unquoted", len(s) >= 2 && ((s[0] == '\'' && s[len(s)-1] == '\'') || (s[0] == '"' && s[len(s)-1] == '"'))):
		s = nd.Concretize(s)
	}
	cfg := &vCfg{keys: []string{"k"}, vals: []any{s}}
	reg := support.DefaultDefinitionRegistry()
	va := NewValueAwarePostProcessors().(*valueAwarePostProcessors)
	pa := NewPropertiesAwarePostProcessors().(*propertiesAwarePostProcessors)
	pa.Configure = cfg
	cq := vQuoteProc(cfg)
	h := &vValHolder{}
	nd.Assert(va.PostProcessDefinitionRegistry(reg, h, "h") == nil, "scan ok")
	nd.Assert(pa.PostProcessDefinitionRegistry(reg, h, "h") == nil, "scan ok")
	meta := reg.GetMetaByName("h")
	for _, f := range meta.Fields {
		if f.StructField.Name == "C" {
			p := component_definition.NewProperty(f, component_definition.PropertyTypeConfiguration, "value", s)
			p.SetArg(component_definition.ArgRequired, "false")
			meta.SetProperties(p)
		}
	}
	props := meta.GetConfigurationProperties()
	nd.Assert(len(props) == 6, "C11: one configuration property per tagged field")
	for _, p := range []container.InstantiationAwareComponentPostProcessor{cq, pa, va} {
		_, err := p.PostProcessProperties(props, h, "h")
		if err != nil {
			nd.Cover("binding failed")
			nd.Assert(false, "C17: binding a string value succeeds")
			return
		}
	}
	nd.Cover("bound")
	nd.Observe("fields", h.A, h.B, h.C, h.D)
	nd.Assert(h.D == s, "C17: binding by prefix gives the field exactly the configured string")
	nd.Assert(h.G == "v"+s+"w", "C17: a configured string substituted into surrounding literal text arrives unchanged")
	nd.Assert(h.A == s, "C17: binding through a value placeholder gives the same result as binding by prefix")
	nd.Assert(h.B == s, "C17: binding through the prop shorthand gives the same result as binding by prefix")
	nd.Assert(h.C == s, "C17: a literal written in a value tag is bound as written")
	nd.Assert(h.E == s, "C17: an optional value placeholder binds like a required one")
}

// C09 (configuration part): required vs optional configuration values, present or absent
type vReqHolder struct {
	V string `value:"${k}"`
	O string `value:"${k},required=false"`
	P string `prefix:"k"`
	Q string `prefix:"k,required=false"`
	R string `prop:"k"`
	S string `prop:"k,required=false"`
}

func VerifC09Values() {
	present := nd.Bool()
	which := nd.Choose(6)
	cfg := &vCfg{}
	s := nd.Bytes(1)
	nd.Assume(s[0] >= 'g' && s[0] <= 'z')
	if present {
		cfg.keys, cfg.vals = []string{"k"}, []any{s}
	}
	reg := support.DefaultDefinitionRegistry()
	va := NewValueAwarePostProcessors().(*valueAwarePostProcessors)
	pa := NewPropertiesAwarePostProcessors().(*propertiesAwarePostProcessors)
	pa.Configure = cfg
	cq := vQuoteProc(cfg)
	h := &vReqHolder{}
	nd.Assert(va.PostProcessDefinitionRegistry(reg, h, "h") == nil, "scan ok")
	nd.Assert(pa.PostProcessDefinitionRegistry(reg, h, "h") == nil, "scan ok")
	meta := reg.GetMetaByName("h")
	names := []string{"V", "O", "P", "Q", "R", "S"}
	var props []*component_definition.Property
	for _, p := range meta.GetConfigurationProperties() {
		if p.StructField.Name == names[which] {
			props = append(props, p)
		}
	}
	nd.Assert(len(props) == 1, "C11: one configuration property per tagged field")
	var err error
	panicked := nd.Catch(func() {
		for _, p := range []container.InstantiationAwareComponentPostProcessor{cq, pa, va} {
			if _, e := p.PostProcessProperties(props, h, "h"); e != nil {
				err = e
				return
			}
		}
	})
	nd.Assert(!panicked, "C09: an unsatisfied configuration value never panics")
	required := which%2 == 0
	got := []string{h.V, h.O, h.P, h.Q, h.R, h.S}[which]
	zero := ""
	if present {
		nd.Cover("value present")
		nd.Assert(err == nil && got == s, "C09: a configured value is bound")
		return
	}
	if required {
		nd.Cover("required value missing")
		nd.Assert(err != nil, "C09: a required configuration value that is missing is reported as an error")
	} else {
		nd.Cover("optional value missing")
		nd.Assert(err == nil, "C09: an optional configuration value that is missing never causes a failure")
		nd.Assert(got == zero, "C09: an optional configuration value that is missing leaves the field at its zero value")
	}
}

// C17 scalars: a small family of CONCRETE integer and float values (boundary magnitudes)
// bound to int64 / float64 / string fields through value, prop and prefix.  No symbolic
// arithmetic is involved: the engine executes the real glue code on each member and the
// native build replays it; it is listed separately from the solver-decided string claim.
type vScalarHolder struct {
	IV int64   `value:"${i}"`
	IP int64   `prop:"i"`
	IX int64   `prefix:"i"`
	FV float64 `value:"${f}"`
	FX float64 `prefix:"f"`
	SX string  `prefix:"i"` // an integer bound by prefix to a string field: its decimal text
	UV uint64  `value:"${u}"`
	UX uint64  `prefix:"u"`
	SK string  `value:"${k/é w}"` // a key with characters beyond [A-Za-z0-9_.-]
}

func VerifC17Scalars() {
	ints := []int{0, 1, -1, 1 << 31, -(1 << 31), 1 << 53, 1<<53 + 1, -(1<<53 + 1), 1<<62 + 1, 9223372036854775807, -9223372036854775808}
	floats := []float64{0.5, 0.1, 3.141592653589793, 16777217.5, 123456789.125, 0.1234567890123}
	iv := ints[nd.Choose(len(ints))]
	fv := floats[nd.Choose(len(floats))]
	nd.Known("C17/large-integer-through-float64", int(float64(iv)) != iv || iv == 9223372036854775807)
	// whole numbers beyond the int64 range that float64 represents exactly
	uv := []uint64{1 << 63, 1<<64 - 2048, 10000000000000000000, 7}[nd.Choose(4)]
	cfg := &vCfg{keys: []string{"i", "f", "u", "k/é w"}, vals: []any{iv, fv, uv, "odd"}}
	reg := support.DefaultDefinitionRegistry()
	va := NewValueAwarePostProcessors().(*valueAwarePostProcessors)
	pa := NewPropertiesAwarePostProcessors().(*propertiesAwarePostProcessors)
	pa.Configure = cfg
	cq := vQuoteProc(cfg)
	h := &vScalarHolder{}
	nd.Assert(va.PostProcessDefinitionRegistry(reg, h, "h") == nil, "scan ok")
	nd.Assert(pa.PostProcessDefinitionRegistry(reg, h, "h") == nil, "scan ok")
	props := reg.GetMetaByName("h").GetConfigurationProperties()
	for _, p := range []container.InstantiationAwareComponentPostProcessor{cq, pa, va} {
		_, err := p.PostProcessProperties(props, h, "h")
		nd.Assert(err == nil, "C17: binding a scalar succeeds")
		if err != nil {
			return
		}
	}
	nd.Observe("ints", int(h.IV), int(h.IP), int(h.IX))
	nd.Assert(h.IX == int64(iv), "C17: binding by prefix gives the field exactly the configured integer")
	nd.Assert(h.SX == strconv.Itoa(iv), "C17: an integer bound by prefix to a string field arrives as its decimal text")
	nd.Assert(h.SK == "odd", "C17: a value is found under its key through a placeholder, whatever characters the key contains")
	nd.Assert(h.UX == uv, "C17: binding by prefix gives the field exactly the configured unsigned integer")
	nd.Assert(h.UV == uv, "C17: a whole number beyond the int64 range bound through a value placeholder equals the configured value")
	nd.Assert(h.IV == int64(iv), "C17: an integer bound through a value placeholder equals the configured integer")
	nd.Assert(h.IP == int64(iv), "C17: an integer bound through the prop shorthand equals the configured integer")
	nd.Assert(h.FX == fv, "C17: binding by prefix gives the field exactly the configured float")
	nd.Assert(h.FV == fv, "C17: a float bound through a value placeholder equals the configured float")
	nd.Cover("scalars bound")
}

// C09 (configuration part, several values on one component): every required value is checked,
// whatever optional values are declared before it - also through an embedded struct and through
// the prop shorthand.
type vSeqInner struct {
	EO string `value:"${ke},required=false"`
}

type vSeqHolder struct {
	vSeqInner
	O1 string `value:"${k1},required=false"`
	P1 string `prop:"k1,required=false"`
	V  string `value:"${k2}"`
	O2 string `value:"${k1},required=false"`
	R  string `prop:"k3"`
	// prop shorthand without a default whose argument values contain the key/default separator
	T string `prop:"k9,note=a:b c:d,required=false"`
	// prop shorthand with an empty key: the arguments still start at the first top-level comma
	E string `prop:",required=false"`
}

func VerifC09ValueSequence() {
	cfg := &vCfg{}
	s := nd.Bytes(1)
	nd.Assume(s[0] >= 'g' && s[0] <= 'z')
	have2, have3 := nd.Bool(), nd.Bool()
	if have2 {
		cfg.keys, cfg.vals = append(cfg.keys, "k2"), append(cfg.vals, any(s))
	}
	if have3 {
		cfg.keys, cfg.vals = append(cfg.keys, "k3"), append(cfg.vals, any(s))
	}
	reg := support.DefaultDefinitionRegistry()
	va := NewValueAwarePostProcessors().(*valueAwarePostProcessors)
	cq := vQuoteProc(cfg)
	h := &vSeqHolder{}
	nd.Assert(va.PostProcessDefinitionRegistry(reg, h, "h") == nil, "scan ok")
	props := reg.GetMetaByName("h").GetConfigurationProperties()
	nd.Assert(len(props) == 8, "C11: one configuration property per tagged field, embedded ones included")
	for _, p := range props {
		if p.StructField.Name == "E" {
			nd.Assert(p.TagVal == "${}" && !p.IsRequired(), "C19: the prop shorthand splits value and arguments at the first top-level comma, also when the key is empty")
		}
		if p.StructField.Name == "T" {
			note, _ := p.Args().Find("note")
			nd.Assert(p.TagVal == "${k9}" && !p.IsRequired() && len(note) == 2 && note[0] == "a:b" && note[1] == "c:d",
				"C19: the prop shorthand splits value and arguments at the first top-level comma, whatever the argument values contain")
		}
	}
	var err error
	panicked := nd.Catch(func() {
		for _, p := range []container.InstantiationAwareComponentPostProcessor{cq, va} {
			if _, e := p.PostProcessProperties(props, h, "h"); e != nil {
				err = e
				return
			}
		}
	})
	nd.Assert(!panicked, "C09: an unsatisfied configuration value never panics")
	if have2 && have3 {
		nd.Cover("all required values present")
		nd.Assert(err == nil, "C09: optional values that cannot be satisfied never cause a failure")
		nd.Assert(h.V == s && h.R == s, "C09: a configured value is bound")
		nd.Assert(h.O1 == "" && h.P1 == "" && h.O2 == "" && h.EO == "" && h.T == "" && h.E == "", "C09: an optional value that cannot be satisfied leaves its field at the zero value")
		return
	}
	nd.Cover("a required value is missing after optional ones")
	nd.Assert(err != nil, "C09: a required configuration value that cannot be satisfied is reported, whatever optional values precede it")
}

// C11: a user-supplied tag processor that shares a built-in node type (Configuration) and does not
// make its points required receives its properties with exactly the arguments written in the tag -
// whatever other scanners of the same node type run before or after it, for direct and embedded fields.
type vEnvInner struct {
	E2 string `env:"Y,opt"`
}

type vEnvHolder struct {
	vEnvInner
	V string `value:"${k}"`
	E string `env:"X"`
}

func VerifC11CustomNode() {
	env := &DefaultTagScanDefinitionRegistryPostProcessor{NodeType: component_definition.PropertyTypeConfiguration, Tag: "env", Required: false}
	va := NewValueAwarePostProcessors().(*valueAwarePostProcessors)
	pa := NewPropertiesAwarePostProcessors().(*propertiesAwarePostProcessors)
	reg := support.DefaultDefinitionRegistry()
	h := &vEnvHolder{}
	scanners := []container.DefinitionRegistryPostProcessor{env, va, pa}
	rot := nd.Choose(3) // the scanning processors run in an arbitrary order
	for i := 0; i < 3; i++ {
		nd.Assert(scanners[(i+rot)%3].PostProcessDefinitionRegistry(reg, h, "h") == nil, "scan ok")
	}
	seen := 0
	for _, p := range reg.GetMetaByName("h").GetConfigurationProperties() {
		switch p.StructField.Name {
		case "E":
			seen++
			nd.Assert(p.Tag == "env" && p.TagVal == "X" && len(p.Args()) == 0, "C11: a user-supplied tag processor receives the tag's value and exactly the arguments written in the tag")
		case "E2":
			seen++
			nd.Assert(p.Tag == "env" && p.TagVal == "Y" && len(p.Args()) == 1 && p.Args().Has("opt"), "C11: a user-supplied tag processor receives the tag's value and exactly the arguments written in the tag, also for embedded fields")
		case "V":
			seen++
			nd.Assert(p.Tag == "value" && p.IsRequired() && p.Args().Has(component_definition.ArgRequired), "C11: the built-in value scanner marks its own points required")
		}
	}
	nd.Assert(seen == 3, "C11: exactly the fields carrying a recognised tag become properties")
	nd.Cover("custom processor sharing a built-in node type")
}

// C11/C09: a nil pointer field whose type announces its configuration prefix through a VALUE-receiver
// Prefix() is scanned like one with a pointer receiver: no panic (the scan runs in goroutines of the
// start-up phase, a panic there kills the process), and the field becomes a prefix point.
type vCfgByValue struct{ Host string }

func (c vCfgByValue) Prefix() string { return "srv" }

type vCfgByPointer struct{ Host string }

func (c *vCfgByPointer) Prefix() string { return "srv" }

type vNilCfgHolder struct {
	V *vCfgByValue
	P *vCfgByPointer
}

func VerifC11NilConfigPointer() {
	pa := NewPropertiesAwarePostProcessors().(*propertiesAwarePostProcessors)
	reg := support.DefaultDefinitionRegistry()
	h := &vNilCfgHolder{}
	if nd.Bool() {
		h.V = &vCfgByValue{}
		h.P = &vCfgByPointer{}
	} else {
		nd.Cover("nil configuration-properties pointers")
	}
	var err error
	panicked := nd.Catch(func() { err = pa.PostProcessDefinitionRegistry(reg, h, "h") })
	nd.Assert(!panicked, "C09: scanning a component never panics")
	nd.Assert(err == nil, "scan ok")
	n := 0
	for _, p := range reg.GetMetaByName("h").GetConfigurationProperties() {
		if p.Tag == "prefix" {
			n++
			nd.Assert(p.TagVal == "srv", "C11: a configuration-properties field is a prefix point with the prefix its type announces")
		}
	}
	nd.Assert(n == 2, "C11: both configuration-properties fields are recognised, whatever receiver Prefix() has")
}
