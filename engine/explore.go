package main

import (
	"fmt"
	"os"
	"runtime"
	"sort"
	"strings"
	"sync"
	"time"

	"golang.org/x/tools/go/ssa"
)

// RunSpec describes one harness run: entry function, bounds (Params) and mode.
type RunSpec struct {
	Name   string
	Pkg    string
	Entry  string
	Params map[string]int
	Opts   ExecOpts
	// Covers that must be reached on at least one feasible path (vacuity guard)
	MustCover []string
	MaxPaths  int
}

type PathSample struct {
	Trace   []int64  `json:"nd_trace"`
	Covers  []string `json:"covers,omitempty"`
	Outcome string   `json:"outcome"`
	Steps   int      `json:"ssa_steps"`
	prefix  []int
	obs     []string
}

type RunResult struct {
	Spec         RunSpec
	Paths        int
	Dropped      int // paths ended by Assume
	Steps        int
	Queries      map[string]int
	Covers       map[string]int
	Violations   []Violation
	Inconcl      map[string]int
	StoppedEarly bool
	nBudget      int
	Samples      []PathSample
	Funcs        map[*ssa.Function]int
	Stubs        map[string]bool
	Assumes      int
	SolverS      float64
	WallS        float64
	MaxSteps     int
	Truncated    bool
	NViol        int
	NKnown       int
	Nontrivial   int
	obsByPrefix  map[string][]string
	Transcripts  []Transcript
}

func (r *RunResult) distinctViolations() []Violation {
	seen := map[string]bool{}
	var out []Violation
	for _, v := range r.Violations {
		k := v.Kind + "|" + v.Label + "|" + v.Known
		if seen[k] {
			continue
		}
		seen[k] = true
		out = append(out, v)
	}
	return out
}

func (w *World) Explore(spec RunSpec, known map[string]bool, workers int, seed int64) *RunResult {
	target := w.pkg(spec.Pkg)
	fn := target.Func(spec.Entry)
	if fn == nil {
		panic("no harness entry " + spec.Pkg + "." + spec.Entry)
	}
	res := &RunResult{Spec: spec, Queries: map[string]int{}, Covers: map[string]int{}, Inconcl: map[string]int{}, Funcs: map[*ssa.Function]int{}, Stubs: map[string]bool{}}
	var mu sync.Mutex
	work := [][]int{{}}
	pending := 1
	cond := sync.NewCond(&mu)
	t1 := time.Now()
	var wg sync.WaitGroup
	maxPaths := spec.MaxPaths
	if maxPaths == 0 {
		maxPaths = 5000000
	}
	sampleEvery := 1
	for wk := 0; wk < workers; wk++ {
		wg.Add(1)
		go func() {
			defer wg.Done()
			sol := newDefaultSolver()
			defer func() {
				mu.Lock()
				res.SolverS += sol.Time.Seconds()
				mu.Unlock()
				sol.close()
			}()
			for {
				mu.Lock()
				for len(work) == 0 && pending > 0 {
					cond.Wait()
				}
				if len(work) == 0 {
					mu.Unlock()
					cond.Broadcast()
					return
				}
				prefix := work[len(work)-1]
				work = work[:len(work)-1]
				mu.Unlock()

				x := &Exec{w: w, sol: sol, opts: spec.Opts, par: spec.Params, known: known,
					globals: map[*ssa.Global]*Cell{}, addrs: map[*Cell]uint64{}, builders: map[*Cell]StrV{},
					syncMaps: map[*Cell]*MapV{}, wgs: map[*Cell]*wgState{}, mus: map[*Cell]*muState{},
					prefix: prefix, funcs: map[*ssa.Function]int{}, q: map[string]int{}, stubsUsed: map[string]bool{},
					entVC: map[*MapEnt]vclock{}, atomVC: map[*Cell]vclock{}, hostDone: make(chan struct{}, 4096)}
				mu.Lock()
				record := len(res.Transcripts) < 400 && (res.Paths < 60 || res.Paths%499 == 0)
				mu.Unlock()
				sol.rec, sol.lines, sol.answers = record, nil, nil
				sol.send("(push)")
				outcome := "ok"
				inconcl := ""
				func() {
					defer func() {
						if r := recover(); r != nil {
							switch e := r.(type) {
							case panicV:
								outcome = "panic"
								func() {
									defer func() {
										if r2 := recover(); r2 != nil {
											inconcl = fmt.Sprint("while recording panic: ", r2)
										}
									}()
									if strings.HasPrefix(e.msg, "fatal error: all goroutines are asleep") {
										x.violation("deadlock", "all goroutines are asleep - deadlock (some goroutine blocks forever)", e.msg)
									} else {
										x.violation("panic", e.msg, "")
									}
								}()
							case abortPath:
								outcome = "end:" + e.why
							case budgetExceeded:
								if spec.Opts.Termination {
									outcome = "budget"
									func() {
										defer func() {
											if r2 := recover(); r2 != nil {
												inconcl = fmt.Sprint("while recording budget: ", r2)
											}
										}()
										x.violation("budget", "unwinding assertion: "+strings.SplitN(e.why, " at ", 2)[0], e.why)
									}()
								} else {
									outcome = "inconclusive"
									inconcl = "unwinding: " + e.why
								}
							case unsupported:
								outcome = "inconclusive"
								inconcl = "unsupported: " + e.why
							case solverUnknown:
								outcome = "inconclusive"
								inconcl = "solver: " + e.msg
							case killedPath:
								outcome = "inconclusive"
								inconcl = "killed"
							default:
								// an internal error of the engine (an SSA shape it does not handle) is never "held"
								if re, isRT := r.(runtime.Error); isRT {
									outcome = "inconclusive"
									inconcl = "unsupported: engine internal error: " + re.Error() + " at " + x.here("")
								} else {
									x.killAll()
									panic(r)
								}
							}
						}
					}()
					x.initPkg(target)
					x.call(FuncV{Fn: fn}, nil, "entry")
					x.drain()
				}()
				x.killAll()
				// sample: evaluate the trace of this path under some model
				var sample *PathSample
				mu.Lock()
				takeSample := inconcl == "" && (len(res.Samples) < 400) && res.Paths%sampleEvery == 0
				mu.Unlock()
				if takeSample && !strings.HasPrefix(outcome, "end:assume") {
					func() {
						defer func() { recover() }()
						tr := x.modelTrace("")
						if tr != nil {
							sample = &PathSample{Trace: tr, Covers: x.covers, Outcome: outcome, Steps: x.steps, prefix: prefix}
							sample.obs = x.evalObs()
						}
					}()
				}
				if inconcl != "" && os.Getenv("VERIF_DEBUG_INCONCL") != "" {
					func() {
						defer func() { recover() }()
						fmt.Fprintf(os.Stderr, "DEBUG inconclusive %q trace=%v\n", inconcl, x.modelTrace(""))
					}()
				}
				sol.send("(pop)")
				sol.rec = false
				mu.Lock()
				if record && len(sol.answers) > 0 {
					res.Transcripts = append(res.Transcripts, Transcript{Lines: sol.lines, Answers: sol.answers})
				}
				res.Paths++
				if len(x.decisions) > 0 || x.q["assert.sat"]+x.q["assert.unsat"] > 0 {
					res.Nontrivial++
				}
				if res.Paths > 4000 {
					sampleEvery = 97
				}
				if strings.HasPrefix(outcome, "end:assume") {
					res.Dropped++
				}
				for _, o := range x.covers {
					res.Covers[o]++
				}
				res.Steps += x.steps
				if x.steps > res.MaxSteps {
					res.MaxSteps = x.steps
				}
				for k, v := range x.q {
					res.Queries[k] += v
				}
				for f, c := range x.funcs {
					res.Funcs[f] += c
				}
				for s := range x.stubsUsed {
					res.Stubs[s] = true
				}
				res.Assumes += x.assumes
				if inconcl != "" {
					res.Inconcl[inconcl]++
				}
				for _, v := range x.viol {
					if v.Known != "" {
						res.NKnown++
					} else {
						res.NViol++
					}
					if v.Kind == "budget" && v.Known == "" {
						res.nBudget++
					}
					if len(res.Violations) < 2000 {
						res.Violations = append(res.Violations, v)
					}
				}
				if sample != nil {
					res.Samples = append(res.Samples, *sample)
				}
				if res.NViol >= 400 || res.nBudget >= 24 {
					// the run already has plenty of counterexamples to replay: exploring the rest of a broken
					// tree adds nothing (never the case on a tree where the property holds)
					if len(work) > 0 || len(x.newWork) > 0 {
						res.StoppedEarly = true
					}
					pending -= len(work)
					work = nil
					pending--
				} else if res.Paths+len(work) < maxPaths {
					work = append(work, x.newWork...)
					pending += len(x.newWork) - 1
				} else {
					if len(x.newWork) > 0 {
						res.Truncated = true
					}
					pending--
				}
				mu.Unlock()
				cond.Broadcast()
			}
		}()
	}
	wg.Wait()
	res.WallS = time.Since(t1).Seconds()
	if res.StoppedEarly {
		res.Inconcl["exploration stopped early: enough violations collected"]++
	}
	if res.Truncated {
		res.Inconcl[fmt.Sprintf("path budget %d exceeded", maxPaths)]++
	}
	for _, c := range spec.MustCover {
		if res.Covers[c] == 0 {
			res.Inconcl["vacuous: cover label never reached: "+c]++
		}
	}
	sort.Slice(res.Samples, func(i, j int) bool { return fmt.Sprint(res.Samples[i].prefix) < fmt.Sprint(res.Samples[j].prefix) })
	return res
}

// evalObs evaluates the nd.Observe record of the finished path under a model.
func (x *Exec) evalObs() []string {
	var out []string
	for _, o := range x.obs {
		parts := []string{o.label}
		for _, v := range o.vals {
			parts = append(parts, x.showVal(v))
		}
		out = append(out, strings.Join(parts, " "))
	}
	return out
}

func (x *Exec) showVal(v Val) string {
	switch u := v.(type) {
	case IfaceV:
		if u.T == nil {
			return "<nil>"
		}
		return x.showVal(u.V)
	case BV:
		if u.Con {
			return fmt.Sprint(sext(u))
		}
		return "sym"
	case BoolV:
		if u.Con {
			return fmt.Sprint(u.C)
		}
		return "sym"
	case OpaqueV:
		if u.F != nil {
			return fmt.Sprint(*u.F)
		}
		return "sym"
	case StrV:
		if s, ok := u.concrete(); ok {
			return fmt.Sprintf("%q", s)
		}
		return "sym"
	}
	return fmt.Sprintf("%T", v)
}

func debugf(format string, a ...any) {
	if os.Getenv("VERIF_DEBUG") != "" {
		fmt.Fprintf(os.Stderr, format+"\n", a...)
	}
}
