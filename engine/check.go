package main

import (
	"encoding/json"
	"flag"
	"fmt"
	"math/rand"
	"os"
	"path/filepath"
	"runtime"
	"sort"
	"strconv"
	"strings"
	"time"
)

// ---------- known findings ----------

type KnownFinding struct {
	Property string         `json:"property"`
	Key      string         `json:"key"`
	What     string         `json:"what"`
	Input    map[string]any `json:"input,omitempty"`
	// Fails: the obligations the finding covers, as "kind: label" prefixes.  A violation inside the
	// finding's input class that breaks any OTHER obligation is an ordinary VIOLATION.
	Fails []string `json:"fails,omitempty"`
}
type KnownFile struct {
	Findings []KnownFinding `json:"findings"`
	Fixed    []string       `json:"fixed"`
}

func loadKnown(verif string) KnownFile {
	var k KnownFile
	b, err := os.ReadFile(filepath.Join(verif, "known_findings.json"))
	if err == nil {
		if err := json.Unmarshal(b, &k); err != nil {
			panic("known_findings.json: " + err.Error())
		}
	}
	return k
}

// ---------- evidence ----------

type Evidence struct {
	PropertyID  string         `json:"property_id"`
	Tier        string         `json:"tier"`
	Seed        int64          `json:"seed"`
	Level       string         `json:"level"`
	Coverage    map[string]any `json:"coverage"`
	Assumptions []string       `json:"assumptions"`
	WallS       float64        `json:"wall_s"`
	Violations  int            `json:"violations"`
}

func cmdCheck(args []string) int {
	fs := flag.NewFlagSet("check", flag.ExitOnError)
	tier := fs.String("tier", envOr("VERIF_TIER", "quick"), "quick|thorough")
	workers := fs.Int("j", runtime.NumCPU(), "workers")
	if len(args) < 1 {
		fmt.Fprintln(os.Stderr, "usage: vcheck check <ID> [--tier quick|thorough]")
		return 2
	}
	id := args[0]
	fs.Parse(args[1:])
	seed, _ := strconv.ParseInt(envOr("VERIF_SEED", "1"), 10, 64)
	def, ok := checkDefs()[id]
	if !ok {
		fmt.Fprintln(os.Stderr, "unknown property", id)
		return 2
	}
	t0 := time.Now()
	verif := envOr("VERIF_HOME", "/verif")
	repo := envOr("VERIF_REPO", "/repo")
	var extra map[string][]byte
	if m := os.Getenv("VERIF_MUTANT"); m != "" { // <repo path>=<file>: overlay replacement of one source file
		kv := strings.SplitN(m, "=", 2)
		extra = map[string][]byte{kv[0]: mustRead(kv[1])}
	}
	w, err := LoadWorld(repo, verif, extra)
	if err != nil {
		fmt.Println("INCONCLUSIVE harness or tree does not compile:", err)
		return 2
	}
	kf := loadKnown(verif)
	known := map[string]bool{}
	knownWhat := map[string]string{}
	knownFails := map[string][]string{}
	for _, f := range kf.Findings {
		if f.Property == id {
			known[f.Key] = true
			knownWhat[f.Key] = f.What
			knownFails[f.Key] = f.Fails
		}
	}
	covered := func(v Violation) bool {
		fl := knownFails[v.Known]
		if len(fl) == 0 {
			return true
		}
		for _, p := range fl {
			if strings.HasPrefix(v.Kind+": "+v.Label, p) {
				return true
			}
		}
		return false
	}
	runs := def.Runs(*tier)
	rep := newReplayer(w)
	defer rep.Close()
	rng := rand.New(rand.NewSource(seed))

	exit := 0
	var inconcl []string
	totalPaths, totalSteps, totalDecisions, totalValidated, nontrivial := 0, 0, 0, 0, 0
	queries := map[string]int{}
	covers := map[string]int{}
	solverS := 0.0
	funcs := map[string]FuncInfo{}
	stubs := map[string]bool{}
	var samples []any
	var runSumm []any
	violLines := 0
	knownLines := map[string]bool{}
	assumes := 0
	replays := 0
	var transcripts []Transcript

	for _, spec := range runs {
		res := w.Explore(spec, known, *workers, seed)
		totalPaths += res.Paths
		transcripts = append(transcripts, res.Transcripts...)
		totalSteps += res.Steps
		assumes += res.Assumes
		for k, v := range res.Queries {
			queries[k] += v
			if strings.HasPrefix(k, "branch.") || strings.HasPrefix(k, "concretise.") {
				totalDecisions += v
			}
		}
		nontrivial += res.Nontrivial
		for k, v := range res.Covers {
			covers[spec.Name+":"+k] += v
		}
		solverS += res.SolverS
		for f, c := range res.Funcs {
			p := ""
			if f.Pkg != nil {
				p = f.Pkg.Pkg.Path()
			}
			if strings.Contains(p, "zzverif") || strings.HasPrefix(f.Name(), "Verif") || strings.HasPrefix(f.Name(), "v") && strings.Contains(w.prog.Fset.Position(f.Pos()).Filename, "zz_verif") {
				continue
			}
			if strings.Contains(w.prog.Fset.Position(f.Pos()).Filename, "zz_verif") {
				continue
			}
			fi := w.describe(f, c)
			if old, ok := funcs[fi.Name]; ok {
				fi.Calls += old.Calls
			}
			funcs[fi.Name] = fi
		}
		for s := range res.Stubs {
			stubs[s] = true
		}
		for k, v := range res.Inconcl {
			inconcl = append(inconcl, fmt.Sprintf("%s: %s (x%d)", spec.Name, k, v))
		}
		// --- violations: replay before reporting
		byClass := map[string][]Violation{}
		var order []string
		for _, v := range res.Violations {
			k := v.Kind + "|" + v.Label + "|" + v.Known
			if _, ok := byClass[k]; !ok {
				order = append(order, k)
			}
			lim := 3
			if v.Kind == "budget" {
				lim = 16 // a step budget may also be exceeded by a slow but terminating path: try more candidates natively
			}
			if len(byClass[k]) < lim {
				byClass[k] = append(byClass[k], v)
			}
		}
		sort.Strings(order)
		for _, k := range order {
			vs := byClass[k]
			reproduced := false
			var last string
			var hit Violation
			for _, v := range vs {
				replays++
				ok, out := rep.reproduces(spec, v, known)
				last = out
				if ok {
					reproduced = true
					hit = v
					break
				}
			}
			if !reproduced {
				inconcl = append(inconcl, fmt.Sprintf("%s: ENCODING-MISMATCH: %s %q predicted by the engine did not reproduce natively (trace %v)", spec.Name, vs[0].Kind, vs[0].Label, vs[0].Trace))
				if os.Getenv("VERIF_DEBUG") != "" {
					fmt.Println(last)
				}
				continue
			}
			if os.Getenv("VERIF_DEBUG_KNOWN") != "" && hit.Known != "" {
				fmt.Printf("DEBUG known class %s: %s: %s\n", hit.Known, hit.Kind, hit.Label)
			}
			if hit.Known != "" && covered(hit) {
				if !knownLines[hit.Known] {
					knownLines[hit.Known] = true
					fmt.Printf("KNOWN-FINDING: property=%s %s: %s [reproduced: run=%s %s %q]\n", id, hit.Known, knownWhat[hit.Known], spec.Name, hit.Kind, hit.Label)
				}
				continue
			}
			// a genuine, reproduced violation
			os.MkdirAll(filepath.Join(verif, "replays", id), 0o755)
			rp := filepath.Join(verif, "replays", id, fmt.Sprintf("%s-%d.json", spec.Name, violLines))
			rb, _ := json.MarshalIndent(map[string]any{"property": id, "run": spec.Name, "pkg": spec.Pkg, "entry": spec.Entry, "params": spec.Params,
				"kind": hit.Kind, "label": hit.Label, "nd_trace": hit.Trace, "where": hit.Where, "slow": hit.Slow}, "", " ")
			os.WriteFile(rp, rb, 0o644)
			fmt.Printf("VIOLATION property=%s replay=%s\n", id, rp)
			fmt.Printf("  run=%s kind=%s label=%q nd_trace=%v\n", spec.Name, hit.Kind, hit.Label, hit.Trace)
			violLines++
			exit = 1
		}
		// --- translation validation: sampled explored paths replayed natively, observations compared
		nval := 12
		if *tier == "thorough" {
			nval = 60
		}
		idx := rng.Perm(len(res.Samples))
		if len(idx) > nval {
			idx = idx[:nval]
		}
		for _, i := range idx {
			ok, msg := rep.validateSample(spec, res.Samples[i], known, i)
			for retry := 0; !ok && retry < 2; retry++ { // a genuine mismatch is deterministic; a loaded machine is not
				ok, msg = rep.validateSample(spec, res.Samples[i], known, i)
			}
			if !ok {
				inconcl = append(inconcl, fmt.Sprintf("%s: ENGINE-NATIVE-MISMATCH on trace %v: %s", spec.Name, res.Samples[i].Trace, msg))
			} else {
				totalValidated++
			}
		}
		for i, s := range res.Samples {
			if i >= 3 {
				break
			}
			samples = append(samples, map[string]any{"run": spec.Name, "harness": spec.Entry, "nd_trace": s.Trace, "outcome": s.Outcome, "covers": s.Covers, "observations": s.obs, "ssa_steps": s.Steps, "what": "one explored path: nd_trace is the model the solver gave for the harness inputs on this path; replayed natively it drives the real build down the same path"})
		}
		runSumm = append(runSumm, map[string]any{"run": spec.Name, "entry": spec.Pkg + "." + spec.Entry, "bounds": spec.Params, "paths": res.Paths, "dropped_by_assume": res.Dropped,
			"ssa_steps": res.Steps, "max_steps_on_a_path": res.MaxSteps, "wall_s": round2(res.WallS), "queries": res.Queries, "violating_paths": res.NViol, "known_class_paths": res.NKnown,
			"mode": map[string]any{"permute_range": spec.Opts.PermuteRange, "sched": spec.Opts.Sched, "max_switches": spec.Opts.MaxSwitches, "races": spec.Opts.Races, "termination": spec.Opts.Termination}})
	}
	// --- model vs. real library (native): only when a Go-source model was actually used
	modelCmp := 0
	usesModel := false
	for st := range stubs {
		if strings.HasPrefix(st, "model:") {
			usesModel = true
		}
	}
	if usesModel {
		n, err := rep.validateModels(*tier == "thorough")
		modelCmp = n
		if err != nil {
			inconcl = append(inconcl, err.Error())
		}
	}
	// --- cross-checking the back end: sampled path transcripts re-decided by z3 5.x and cvc5
	maxT := 60
	if *tier == "thorough" {
		maxT = 400
	}
	if len(transcripts) > maxT {
		rng.Shuffle(len(transcripts), func(i, j int) { transcripts[i], transcripts[j] = transcripts[j], transcripts[i] })
		transcripts = transcripts[:maxT]
	}
	cross := map[string]any{}
	if len(transcripts) > 0 && os.Getenv("VERIF_NO_CROSS") == "" {
		for _, alt := range []struct {
			name, bin string
			args      []string
			prelude   string
		}{{"z3-new", "z3-new", []string{"-in"}, ""}, {"cvc5", "cvc5", []string{"--incremental", "--lang=smt2"}, "(set-logic ALL)"}} {
			n, d, err := crossSolve(alt.bin, alt.args, alt.prelude, transcripts)
			cross[alt.name] = map[string]any{"queries_rechecked": n, "disagreements": d}
			if err != nil {
				inconcl = append(inconcl, "cross-solver "+alt.name+": "+err.Error())
			} else if d > 0 {
				inconcl = append(inconcl, fmt.Sprintf("cross-solver %s disagrees with z3 on %d of %d queries", alt.name, d, n))
			}
		}
	}
	if len(inconcl) > 0 && exit == 0 {
		exit = 2
	}
	for _, m := range inconcl {
		fmt.Println("INCONCLUSIVE", m)
	}
	var fl []FuncInfo
	for _, f := range funcs {
		fl = append(fl, f)
	}
	sort.Slice(fl, func(i, j int) bool { return fl[i].Name < fl[j].Name })
	var sl []string
	for s := range stubs {
		sl = append(sl, s)
	}
	sort.Strings(sl)
	if len(samples) == 0 {
		samples = append(samples, "no path completed")
	}
	ev := Evidence{PropertyID: id, Tier: *tier, Seed: seed, Level: "model_checking", WallS: round2(time.Since(t0).Seconds()), Violations: violLines,
		Coverage: map[string]any{
			"states":                        totalPaths,
			"transitions":                   totalDecisions,
			"traces_validated_against_impl": totalValidated,
			"samples":                       samples,
			"evaluations":                   totalPaths,
			"distinct_nontrivial":           nontrivial,
			"rule":                          "one evaluation = one explored path of the real code (all inputs driving execution the same way); distinct by decision prefix; non-trivial = at least one branch/assertion on it was decided by the solver rather than by constant folding",
			"exhaustive":                    len(inconcl) == 0,
			"explanation":                   "bounded symbolic execution of go/ssa built from /repo's working tree; every path within the bounds explored; assertions and implicit Go panics discharged by z3 as pc ∧ ¬A unsat",
			"runs":                          runSumm,
			"functions_encoded":             fl,
			"queries":                       queries,
			"solver":                        "z3 -in (incremental, one process per worker)",
			"solver_time_s":                 round2(solverS),
			"cover_labels":                  covers,
			"native_replays":                replays,
			"model_vs_library_comparisons":  modelCmp,
			"cross_solver":                  cross,
			"cross_solver_paths":            len(transcripts),
			"stubs_and_models_used":         sl,
			"assume_calls":                  assumes,
			"inconclusive":                  inconcl,
			"known_findings_reproduced":     keys(knownLines),
			"load_and_ssa_build_s":          round2(w.loadS),
		},
		Assumptions: append(append([]string{}, def.Assumptions...), sl...),
	}
	os.MkdirAll(filepath.Join(verif, "evidence"), 0o755)
	eb, _ := json.MarshalIndent(ev, "", " ")
	os.WriteFile(filepath.Join(verif, "evidence", id+".json"), eb, 0o644)
	fmt.Printf("%s tier=%s paths=%d decisions=%d validated=%d violations=%d known=%d wall=%.1fs exit=%d\n", id, *tier, totalPaths, totalDecisions, totalValidated, violLines, len(knownLines), time.Since(t0).Seconds(), exit)
	return exit
}

func keys(m map[string]bool) []string {
	out := []string{}
	for k := range m {
		out = append(out, k)
	}
	sort.Strings(out)
	return out
}

func round2(f float64) float64 { return float64(int(f*100+0.5)) / 100 }

// cmdReplay re-runs a recorded counterexample natively.
func cmdReplay(args []string) int {
	if len(args) < 1 {
		fmt.Fprintln(os.Stderr, "usage: vcheck replay <file>")
		return 2
	}
	b, err := os.ReadFile(args[0])
	if err != nil {
		fmt.Fprintln(os.Stderr, err)
		return 2
	}
	var r struct {
		Property, Run, Pkg, Entry, Kind, Label string
		Params                                 map[string]int
		Trace                                  []int64 `json:"nd_trace"`
		Slow                                   bool
	}
	if err := json.Unmarshal(b, &r); err != nil {
		fmt.Fprintln(os.Stderr, err)
		return 2
	}
	w, err := LoadWorld(envOr("VERIF_REPO", "/repo"), envOr("VERIF_HOME", "/verif"), nil)
	if err != nil {
		fmt.Println("INCONCLUSIVE", err)
		return 2
	}
	rep := newReplayer(w)
	defer rep.Close()
	ok, out := rep.reproduces(RunSpec{Pkg: r.Pkg, Entry: r.Entry, Params: r.Params}, Violation{Kind: r.Kind, Label: r.Label, Trace: r.Trace, Slow: r.Slow}, map[string]bool{})
	fmt.Println(out)
	if ok {
		fmt.Printf("VIOLATION property=%s replay=%s\n", r.Property, args[0])
		return 1
	}
	fmt.Println("not reproduced on this tree")
	return 0
}
