module symgo

go 1.23

require (
	github.com/expr-lang/expr v1.16.9
	github.com/go-playground/validator/v10 v10.22.0
	github.com/spf13/viper v1.19.0
	golang.org/x/tools v0.29.0
	gopkg.in/yaml.v3 v3.0.1
)

require (
	github.com/fsnotify/fsnotify v1.7.0 // indirect
	github.com/gabriel-vasile/mimetype v1.4.3 // indirect
	github.com/go-playground/locales v0.14.1 // indirect
	github.com/go-playground/universal-translator v0.18.1 // indirect
	github.com/hashicorp/hcl v1.0.0 // indirect
	github.com/leodido/go-urn v1.4.0 // indirect
	github.com/magiconair/properties v1.8.7 // indirect
	github.com/mitchellh/mapstructure v1.5.0 // indirect
	github.com/pelletier/go-toml/v2 v2.2.2 // indirect
	github.com/sagikazarmark/slog-shim v0.1.0 // indirect
	github.com/spf13/afero v1.11.0 // indirect
	github.com/spf13/cast v1.6.0 // indirect
	github.com/spf13/pflag v1.0.5 // indirect
	github.com/subosito/gotenv v1.6.0 // indirect
	golang.org/x/crypto v0.21.0 // indirect
	golang.org/x/mod v0.22.0 // indirect
	golang.org/x/net v0.34.0 // indirect
	golang.org/x/sync v0.10.0 // indirect
	golang.org/x/sys v0.29.0 // indirect
	golang.org/x/text v0.16.0 // indirect
	gopkg.in/ini.v1 v1.67.0 // indirect
)

replace (
	github.com/fsnotify/fsnotify => github.com/fsnotify/fsnotify v1.7.0
	github.com/hashicorp/hcl => github.com/hashicorp/hcl v1.0.0
	github.com/magiconair/properties => github.com/magiconair/properties v1.8.7
	github.com/mitchellh/mapstructure => github.com/mitchellh/mapstructure v1.5.0
	github.com/pelletier/go-toml/v2 => github.com/pelletier/go-toml/v2 v2.2.2
	github.com/sagikazarmark/locafero => github.com/sagikazarmark/locafero v0.4.0
	github.com/sagikazarmark/slog-shim => github.com/sagikazarmark/slog-shim v0.1.0
	github.com/sourcegraph/conc => github.com/sourcegraph/conc v0.3.0
	github.com/spf13/afero => github.com/spf13/afero v1.11.0
	github.com/spf13/cast => github.com/spf13/cast v1.6.0
	github.com/spf13/pflag => github.com/spf13/pflag v1.0.5
	github.com/subosito/gotenv => github.com/subosito/gotenv v1.6.0
	go.uber.org/atomic => go.uber.org/atomic v1.9.0
	go.uber.org/multierr => go.uber.org/multierr v1.9.0
	golang.org/x/crypto => golang.org/x/crypto v0.21.0
	golang.org/x/exp => golang.org/x/exp v0.0.0-20230905200255-921286631fa9
	golang.org/x/net => golang.org/x/net v0.23.0
	golang.org/x/sys => golang.org/x/sys v0.18.0
	golang.org/x/text => golang.org/x/text v0.16.0
	gopkg.in/ini.v1 => gopkg.in/ini.v1 v1.67.0
	gopkg.in/yaml.v3 => gopkg.in/yaml.v3 v3.0.1
)
