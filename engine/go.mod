module symgo

go 1.23

require (
	github.com/expr-lang/expr v1.16.9
	github.com/go-playground/validator/v10 v10.22.0
	golang.org/x/tools v0.29.0
)

require (
	github.com/gabriel-vasile/mimetype v1.4.3 // indirect
	github.com/go-playground/locales v0.14.1 // indirect
	github.com/go-playground/universal-translator v0.18.1 // indirect
	github.com/leodido/go-urn v1.4.0 // indirect
	golang.org/x/crypto v0.21.0 // indirect
	golang.org/x/mod v0.22.0 // indirect
	golang.org/x/net v0.34.0 // indirect
	golang.org/x/sync v0.10.0 // indirect
	golang.org/x/sys v0.29.0 // indirect
	golang.org/x/text v0.16.0 // indirect
)

replace (
	golang.org/x/crypto => golang.org/x/crypto v0.21.0
	golang.org/x/net => golang.org/x/net v0.23.0
	golang.org/x/sys => golang.org/x/sys v0.18.0
	golang.org/x/text => golang.org/x/text v0.16.0
)
