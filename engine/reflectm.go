package main

import (
	"fmt"
	"go/types"
	"reflect"
	"sort"
	"strings"

	"golang.org/x/tools/go/ssa"
)

// reflect model over go/types.  A reflect.Type is the canonical types.Type, a
// reflect.Value is (type, heap location or r-value, flags).  The flag rules
// (flagAddr, flagStickyRO, flagEmbedRO) follow reflect/value.go.

type RTypeV struct{ T types.Type }
type RValV struct {
	T        types.Type
	Loc      *Cell // addressable location, or nil
	V        Val   // r-value when Loc == nil
	StickyRO bool  // reached through an unexported non-embedded field
	EmbedRO  bool  // reached through an unexported embedded field
	Addr     bool
}

func (r RValV) ro() bool { return r.StickyRO || r.EmbedRO }

func (r RValV) val() Val {
	if r.Loc != nil {
		return r.Loc.V
	}
	return r.V
}

func kindOf(t types.Type) uint64 {
	switch u := t.Underlying().(type) {
	case *types.Basic:
		switch u.Kind() {
		case types.Bool, types.UntypedBool:
			return 1
		case types.Int, types.UntypedInt:
			return 2
		case types.Int8:
			return 3
		case types.Int16:
			return 4
		case types.Int32, types.UntypedRune:
			return 5
		case types.Int64:
			return 6
		case types.Uint:
			return 7
		case types.Uint8:
			return 8
		case types.Uint16:
			return 9
		case types.Uint32:
			return 10
		case types.Uint64:
			return 11
		case types.Uintptr:
			return 12
		case types.Float32:
			return 13
		case types.Float64, types.UntypedFloat:
			return 14
		case types.Complex64:
			return 15
		case types.Complex128:
			return 16
		case types.String, types.UntypedString:
			return 24
		case types.UnsafePointer:
			return 26
		}
	case *types.Array:
		return 17
	case *types.Chan:
		return 18
	case *types.Signature:
		return 19
	case *types.Interface:
		return 20
	case *types.Map:
		return 21
	case *types.Pointer:
		return 22
	case *types.Slice:
		return 23
	case *types.Struct:
		return 25
	}
	panic(unsupported{"kindOf " + t.String()})
}

func (x *Exec) rtype(t types.Type) Val {
	if t == nil {
		return IfaceV{}
	}
	t = types.Unalias(t)
	return IfaceV{T: x.w.rtypePtr, V: RTypeV{T: t}}
}

func rt(v Val) types.Type {
	switch u := v.(type) {
	case RTypeV:
		return u.T
	case IfaceV:
		if u.T == nil {
			panic(panicV{msg: "reflect: nil Type"})
		}
		return u.V.(RTypeV).T
	}
	panic(unsupported{fmt.Sprintf("rt of %T", v)})
}

func typeString(t types.Type) string {
	s := types.TypeString(t, func(p *types.Package) string { return p.Name() })
	s = strings.ReplaceAll(s, "interface{}", "interface {}")
	s = strings.ReplaceAll(s, "struct{}", "struct {}")
	return s
}

func (x *Exec) fillStruct(t types.Type, vals map[string]Val) Val {
	st := t.Underlying().(*types.Struct)
	s := &StructV{F: make([]*Cell, st.NumFields())}
	for i := 0; i < st.NumFields(); i++ {
		if v, ok := vals[st.Field(i).Name()]; ok {
			s.F[i] = &Cell{V: v}
		} else {
			s.F[i] = &Cell{V: x.zero(st.Field(i).Type())}
		}
	}
	return s
}

func (x *Exec) structFieldVal(sft types.Type, f *types.Var, tag string, idx int) Val {
	pk := ""
	if !f.Exported() && f.Pkg() != nil {
		pk = f.Pkg().Path()
	}
	ia := &ArrV{E: []*Cell{{V: cbv(64, uint64(idx))}}}
	return x.fillStruct(sft, map[string]Val{
		"Name":      cstr(f.Name()),
		"PkgPath":   cstr(pk),
		"Type":      x.rtype(f.Type()),
		"Tag":       cstr(tag),
		"Anonymous": cbool(f.Embedded()),
		"Index":     SliceV{A: ia, Len: 1, Cap: 1},
	})
}

// exported method set of t, sorted by name (reflect's order)
func (x *Exec) methods(t types.Type) []*types.Selection {
	ms := x.w.prog.MethodSets.MethodSet(t)
	var out []*types.Selection
	for i := 0; i < ms.Len(); i++ {
		if ms.At(i).Obj().Exported() {
			out = append(out, ms.At(i))
		}
	}
	sort.Slice(out, func(i, j int) bool { return out[i].Obj().Name() < out[j].Obj().Name() })
	return out
}

func (x *Exec) findMethod(t types.Type, name string) (*types.Selection, int) {
	for i, s := range x.methods(t) {
		if s.Obj().Name() == name {
			return s, i
		}
	}
	return nil, -1
}

func assignable(v, t types.Type) bool {
	if types.AssignableTo(v, t) {
		return true
	}
	return false
}

func (x *Exec) reflectSet(r, v RValV, what string) {
	if !r.Addr {
		panic(panicV{msg: "reflect: " + what + " using unaddressable value"})
	}
	if r.ro() {
		panic(panicV{msg: "reflect: " + what + " using value obtained using unexported field"})
	}
	if v.T == nil {
		panic(panicV{msg: "reflect: call of reflect.Value.Set on zero Value"})
	}
	if v.ro() {
		panic(panicV{msg: "reflect: " + what + " using value obtained using unexported field"})
	}
	if !assignable(v.T, r.T) {
		panic(panicV{msg: fmt.Sprintf("reflect.Set: value of type %s is not assignable to type %s", typeString(v.T), typeString(r.T))})
	}
	val := copyVal(v.val())
	if _, dstI := r.T.Underlying().(*types.Interface); dstI {
		if _, srcI := v.T.Underlying().(*types.Interface); !srcI {
			val = IfaceV{T: v.T, V: val}
		}
	}
	x.storeCell(r.Loc, val, func() string { return "reflect.Value.Set" })
}

func (x *Exec) reflectStub(fn *ssa.Function, args []Val) (Val, bool) {
	name := x.w.name(fn)
	if !strings.Contains(name, "reflect.") || fn.Name() == "init" || strings.HasPrefix(name, "internal/reflectlite") || strings.HasPrefix(name, "(internal/reflectlite") {
		return nil, false
	}
	if fn.Pkg == nil || fn.Pkg.Pkg.Path() != "reflect" {
		// methods with reflect.X receivers are in package reflect; anything else is not ours
		if !(strings.HasPrefix(name, "(reflect.") || strings.HasPrefix(name, "(*reflect.") || strings.HasPrefix(name, "reflect.")) {
			return nil, false
		}
	}
	x.stubsUsed["reflect model"] = true
	switch name {
	case "(reflect.StructTag).Lookup":
		tag, ok := args[0].(StrV).concrete()
		key, ok2 := args[1].(StrV).concrete()
		if !ok || !ok2 {
			panic(unsupported{"StructTag.Lookup symbolic"})
		}
		v, found := reflect.StructTag(tag).Lookup(key)
		return TupleV{cstr(v), cbool(found)}, true
	case "(reflect.StructTag).Get":
		tag, ok := args[0].(StrV).concrete()
		key, ok2 := args[1].(StrV).concrete()
		if !ok || !ok2 {
			panic(unsupported{"StructTag.Get symbolic"})
		}
		return cstr(reflect.StructTag(tag).Get(key)), true
	case "reflect.TypeOf":
		return x.rtype(args[0].(IfaceV).T), true
	case "reflect.ValueOf":
		iv := args[0].(IfaceV)
		if iv.T == nil {
			return RValV{}, true
		}
		return RValV{T: iv.T, V: iv.V}, true
	case "reflect.New":
		t := rt(args[0])
		c := &Cell{V: x.zero(t)}
		return RValV{T: types.NewPointer(t), V: PtrV{C: c}}, true
	case "reflect.Zero":
		t := rt(args[0])
		return RValV{T: t, V: x.zero(t)}, true
	case "reflect.MakeSlice":
		t := rt(args[0])
		n := x.concInt(args[1], "MakeSlice len")
		c := x.concInt(args[2], "MakeSlice cap")
		if n < 0 || c < n {
			panic(panicV{msg: "reflect.MakeSlice: bad len/cap"})
		}
		sl, ok := t.Underlying().(*types.Slice)
		if !ok {
			panic(panicV{msg: "reflect.MakeSlice of non-slice type"})
		}
		a := &ArrV{E: make([]*Cell, c)}
		for i := range a.E {
			a.E[i] = &Cell{V: x.zero(sl.Elem())}
		}
		return RValV{T: t, V: SliceV{A: a, Len: n, Cap: c}}, true
	case "reflect.Append":
		// a fresh backing array holding the old elements followed by the new ones
		r := args[0].(RValV)
		sl, ok := r.T.Underlying().(*types.Slice)
		if !ok {
			panic(panicV{msg: "reflect.Append of non-slice type"})
		}
		old, _ := r.val().(SliceV)
		var cells []*Cell
		for i := 0; i < old.Len; i++ {
			cells = append(cells, &Cell{V: copyVal(old.A.E[old.Off+i].V)})
		}
		for _, a := range sliceVals(args[1]) {
			av := a.(RValV)
			if av.T == nil || !assignable(av.T, sl.Elem()) {
				panic(panicV{msg: "reflect.Append: value is not assignable to the element type"})
			}
			ev := copyVal(av.val())
			if _, isI := sl.Elem().Underlying().(*types.Interface); isI {
				if _, srcI := av.T.Underlying().(*types.Interface); !srcI {
					ev = IfaceV{T: av.T, V: ev}
				}
			}
			cells = append(cells, &Cell{V: ev})
		}
		if len(cells) == 0 {
			return RValV{T: r.T, V: SliceV{}}, true
		}
		return RValV{T: r.T, V: SliceV{A: &ArrV{E: cells}, Len: len(cells), Cap: len(cells)}}, true
	case "reflect.DeepEqual":
		a, b := args[0].(IfaceV), args[1].(IfaceV)
		return x.deepEqual(a, b, map[[2]*Cell]bool{}, 0), true
	case "reflect.Indirect":
		r := args[0].(RValV)
		if _, ok := r.T.Underlying().(*types.Pointer); !ok {
			return r, true
		}
		return x.rvElem(r), true
	// ---- Type methods
	case "(*reflect.rtype).Kind":
		return cbv(64, kindOf(rt(args[0]))), true
	case "(*reflect.rtype).Elem":
		switch u := rt(args[0]).Underlying().(type) {
		case *types.Pointer:
			return x.rtype(u.Elem()), true
		case *types.Slice:
			return x.rtype(u.Elem()), true
		case *types.Array:
			return x.rtype(u.Elem()), true
		case *types.Map:
			return x.rtype(u.Elem()), true
		case *types.Chan:
			return x.rtype(u.Elem()), true
		}
		panic(panicV{msg: "reflect: Elem of invalid type " + typeString(rt(args[0]))})
	case "(*reflect.rtype).Key":
		if m, ok := rt(args[0]).Underlying().(*types.Map); ok {
			return x.rtype(m.Key()), true
		}
		panic(panicV{msg: "reflect: Key of non-map type"})
	case "(*reflect.rtype).Name":
		switch n := rt(args[0]).(type) {
		case *types.Named:
			return cstr(n.Obj().Name()), true
		case *types.Basic:
			return cstr(n.Name()), true
		}
		return cstr(""), true
	case "(*reflect.rtype).PkgPath":
		if n, ok := rt(args[0]).(*types.Named); ok && n.Obj().Pkg() != nil {
			return cstr(n.Obj().Pkg().Path()), true
		}
		return cstr(""), true
	case "(*reflect.rtype).String":
		return cstr(typeString(rt(args[0]))), true
	case "(*reflect.rtype).NumField":
		st, ok := rt(args[0]).Underlying().(*types.Struct)
		if !ok {
			panic(panicV{msg: "reflect: NumField of non-struct type " + typeString(rt(args[0]))})
		}
		return cbv(64, uint64(st.NumFields())), true
	case "(*reflect.rtype).Field":
		st, ok := rt(args[0]).Underlying().(*types.Struct)
		if !ok {
			panic(panicV{msg: "reflect: Field of non-struct type"})
		}
		i := x.concInt(args[1], "Field index")
		if i < 0 || i >= st.NumFields() {
			panic(panicV{msg: "reflect: Field index out of bounds"})
		}
		return x.structFieldVal(fn.Signature.Results().At(0).Type(), st.Field(i), st.Tag(i), i), true
	case "(*reflect.rtype).FieldByName":
		// Go's selector rules (depth, ambiguity) through go/types; the result carries the index path
		t := rt(args[0])
		if _, ok := t.Underlying().(*types.Struct); !ok {
			panic(panicV{msg: "reflect: FieldByName of non-struct type"})
		}
		nm, ok := args[1].(StrV).concrete()
		if !ok {
			panic(unsupported{"reflect.Type.FieldByName with a symbolic name"})
		}
		sft := fn.Signature.Results().At(0).Type()
		obj, path, _ := types.LookupFieldOrMethod(t, true, x.pkgOfType(t), nm)
		fv, isVar := obj.(*types.Var)
		if obj == nil || !isVar || !fv.IsField() {
			return TupleV{x.zero(sft), cbool(false)}, true
		}
		// the tag of the field found: walk the path
		cur := t
		tag := ""
		for _, i := range path {
			st, ok := derefStruct(cur)
			if !ok {
				return TupleV{x.zero(sft), cbool(false)}, true
			}
			tag = st.Tag(i)
			cur = st.Field(i).Type()
		}
		sf := x.structFieldVal(sft, fv, tag, path[len(path)-1]).(*StructV)
		ia := &ArrV{E: make([]*Cell, len(path))}
		for k, i := range path {
			ia.E[k] = &Cell{V: cbv(64, uint64(i))}
		}
		x.setStructField(sft, sf, "Index", SliceV{A: ia, Len: len(path), Cap: len(path)})
		return TupleV{sf, cbool(true)}, true
	case "(*reflect.rtype).Implements":
		it, ok := rt(args[1]).Underlying().(*types.Interface)
		if !ok {
			panic(panicV{msg: "reflect: non-interface type passed to Type.Implements"})
		}
		return cbool(types.Implements(rt(args[0]), it)), true
	case "(*reflect.rtype).AssignableTo":
		return cbool(assignable(rt(args[0]), rt(args[1]))), true
	case "(*reflect.rtype).ConvertibleTo":
		return cbool(types.ConvertibleTo(rt(args[0]), rt(args[1]))), true
	case "(*reflect.rtype).Comparable":
		return cbool(types.Comparable(rt(args[0]))), true
	case "(*reflect.rtype).NumMethod":
		// an interface type counts all of its methods, any other type only the exported ones
		if t := rt(args[0]); types.IsInterface(t) {
			return cbv(64, uint64(x.w.prog.MethodSets.MethodSet(t).Len())), true
		}
		return cbv(64, uint64(len(x.methods(rt(args[0]))))), true
	case "(*reflect.rtype).NumOut":
		sig, ok := rt(args[0]).Underlying().(*types.Signature)
		if !ok {
			panic(panicV{msg: "reflect: NumOut of non-func type"})
		}
		return cbv(64, uint64(sig.Results().Len())), true
	case "(*reflect.rtype).NumIn":
		sig, ok := rt(args[0]).Underlying().(*types.Signature)
		if !ok {
			panic(panicV{msg: "reflect: NumIn of non-func type"})
		}
		return cbv(64, uint64(sig.Params().Len())), true
	case "(*reflect.rtype).MethodByName":
		t := rt(args[0])
		mn, ok := args[1].(StrV).concrete()
		if !ok {
			panic(unsupported{"Type.MethodByName symbolic name"})
		}
		mt := fn.Signature.Results().At(0).Type()
		sel, idx := x.findMethod(t, mn)
		if sel == nil {
			return TupleV{x.zero(mt), cbool(false)}, true
		}
		return TupleV{x.fillStruct(mt, map[string]Val{
			"Name":  cstr(mn),
			"Type":  x.rtype(sel.Type()),
			"Index": cbv(64, uint64(idx)),
		}), cbool(true)}, true
	// ---- Value methods
	case "(reflect.Value).Type":
		r := args[0].(RValV)
		if r.T == nil {
			panic(panicV{msg: "reflect: call of reflect.Value.Type on zero Value"})
		}
		return x.rtype(r.T), true
	case "(reflect.Value).Kind":
		r := args[0].(RValV)
		if r.T == nil {
			return cbv(64, 0), true
		}
		return cbv(64, kindOf(r.T)), true
	case "(reflect.Value).IsValid":
		return cbool(args[0].(RValV).T != nil), true
	case "(reflect.Value).IsZero":
		r := args[0].(RValV)
		return x.valEq(r.val(), x.zero(r.T)), true
	case "(reflect.Value).IsNil":
		r := args[0].(RValV)
		if r.T == nil {
			panic(panicV{msg: "reflect: call of reflect.Value.IsNil on zero Value"})
		}
		switch v := r.val().(type) {
		case PtrV:
			return cbool(v.C == nil), true
		case SliceV:
			return cbool(v.A == nil), true
		case *MapV:
			return cbool(v == nil), true
		case IfaceV:
			return cbool(v.T == nil), true
		case FuncV:
			return cbool(v.Fn == nil && v.Native == nil && v.Bi == nil), true
		}
		panic(panicV{msg: "reflect: call of reflect.Value.IsNil on " + typeString(r.T) + " Value"})
	case "(reflect.Value).Pointer", "(reflect.Value).UnsafePointer":
		r := args[0].(RValV)
		if r.T == nil {
			panic(panicV{msg: "reflect: call of reflect.Value.Pointer on zero Value"})
		}
		switch v := r.val().(type) {
		case PtrV:
			if name == "(reflect.Value).UnsafePointer" {
				return v, true
			}
			return cbv(64, x.addrOf(v.C)), true
		case SliceV:
			if v.A == nil {
				return cbv(64, 0), true
			}
			if len(v.A.E) == 0 {
				return cbv(64, 0xC000), true
			}
			return cbv(64, x.addrOf(v.A.E[v.Off])), true
		case *MapV:
			if v == nil {
				return cbv(64, 0), true
			}
			panic(unsupported{"Pointer of map"})
		case FuncV:
			panic(unsupported{"Pointer of func"})
		}
		panic(panicV{msg: "reflect: call of reflect.Value.Pointer on " + typeString(r.T) + " Value"})
	case "(reflect.Value).Elem":
		return x.rvElem(args[0].(RValV)), true
	case "(reflect.Value).NumField":
		r := args[0].(RValV)
		st, ok := r.T.Underlying().(*types.Struct)
		if !ok {
			panic(panicV{msg: "reflect: call of reflect.Value.NumField on " + typeString(r.T) + " Value"})
		}
		return cbv(64, uint64(st.NumFields())), true
	case "(reflect.Value).Field":
		r := args[0].(RValV)
		if r.T == nil {
			panic(panicV{msg: "reflect: call of reflect.Value.Field on zero Value"})
		}
		st, ok := r.T.Underlying().(*types.Struct)
		if !ok {
			panic(panicV{msg: "reflect: call of reflect.Value.Field on " + typeString(r.T) + " Value"})
		}
		i := x.concInt(args[1], "Field index")
		if i < 0 || i >= st.NumFields() {
			panic(panicV{msg: "reflect: Field index out of range"})
		}
		f := st.Field(i)
		nr := RValV{T: types.Unalias(f.Type()), Addr: r.Addr, StickyRO: r.StickyRO}
		if !f.Exported() {
			if f.Embedded() {
				nr.EmbedRO = true
			} else {
				nr.StickyRO = true
			}
		}
		sv := r.val().(*StructV)
		if r.Loc != nil {
			nr.Loc = sv.F[i]
		} else {
			nr.V = sv.F[i].V
		}
		return nr, true
	case "(reflect.Value).FieldByIndexErr", "(reflect.Value).FieldByIndex":
		r := args[0].(RValV)
		idx := sliceVals(args[1])
		cur := r
		for k, iv := range idx {
			if k > 0 {
				if _, isPtr := cur.T.Underlying().(*types.Pointer); isPtr {
					if p, ok := cur.val().(PtrV); ok && p.C == nil {
						if fn.Name() == "FieldByIndexErr" {
							return TupleV{RValV{}, x.opaqueErr()}, true
						}
						panic(panicV{msg: "reflect: indirection through nil pointer to embedded struct"})
					}
					cur = x.rvElem(cur)
				}
			}
			fr, _ := x.reflectStub(x.reflectFn("(reflect.Value).Field"), []Val{cur, iv})
			cur = fr.(RValV)
		}
		if fn.Name() == "FieldByIndexErr" {
			return TupleV{cur, IfaceV{}}, true
		}
		return cur, true
	case "(reflect.Value).Index":
		r := args[0].(RValV)
		i := x.concInt(args[1], "Index")
		switch s := r.val().(type) {
		case SliceV:
			if i < 0 || i >= s.Len {
				panic(panicV{msg: "reflect: slice index out of range"})
			}
			return RValV{T: r.T.Underlying().(*types.Slice).Elem(), Loc: s.A.E[s.Off+i], Addr: true, StickyRO: r.ro()}, true
		case *ArrV:
			if i < 0 || i >= len(s.E) {
				panic(panicV{msg: "reflect: array index out of range"})
			}
			nr := RValV{T: r.T.Underlying().(*types.Array).Elem(), Addr: r.Addr, StickyRO: r.ro()}
			if r.Loc != nil {
				nr.Loc = s.E[i]
			} else {
				nr.V = s.E[i].V
			}
			return nr, true
		}
		panic(panicV{msg: "reflect: call of reflect.Value.Index on " + typeString(r.T) + " Value"})
	case "(reflect.Value).Len":
		r := args[0].(RValV)
		switch s := r.val().(type) {
		case SliceV:
			return cbv(64, uint64(s.Len)), true
		case StrV:
			return cbv(64, uint64(len(s.B))), true
		case *ArrV:
			return cbv(64, uint64(len(s.E))), true
		case *MapV:
			if s == nil {
				return cbv(64, 0), true
			}
			return cbv(64, uint64(len(s.Ent))), true
		}
		panic(panicV{msg: "reflect: call of reflect.Value.Len on " + typeString(r.T) + " Value"})
	case "(reflect.Value).CanSet":
		r := args[0].(RValV)
		return cbool(r.Addr && !r.ro()), true
	case "(reflect.Value).CanAddr":
		return cbool(args[0].(RValV).Addr), true
	case "(reflect.Value).CanInterface":
		r := args[0].(RValV)
		if r.T == nil {
			panic(panicV{msg: "reflect: call of reflect.Value.CanInterface on zero Value"})
		}
		return cbool(!r.ro()), true
	case "(reflect.Value).Convert", "(reflect.Value).CanConvert":
		// conversions between basic kinds (numeric widths, integer -> string as a code point, string <-> string,
		// identical types): the SSA conversion semantics; anything else is not modelled
		r := args[0].(RValV)
		to := rt(args[1])
		if r.T == nil {
			panic(panicV{msg: "reflect: call of reflect.Value.Convert on zero Value"})
		}
		okc := types.ConvertibleTo(r.T, to)
		if fn.Name() == "CanConvert" {
			return cbool(okc), true
		}
		if !okc {
			panic(panicV{msg: "reflect.Value.Convert: value of type " + r.T.String() + " cannot be converted to type " + to.String()})
		}
		_, fb := r.T.Underlying().(*types.Basic)
		_, tb := to.Underlying().(*types.Basic)
		if types.Identical(r.T, to) || (fb && tb) {
			return RValV{T: to, V: x.convert(copyVal(r.val()), r.T, to), StickyRO: r.StickyRO, EmbedRO: r.EmbedRO}, true
		}
		if types.Identical(r.T.Underlying(), to.Underlying()) {
			return RValV{T: to, V: copyVal(r.val()), StickyRO: r.StickyRO, EmbedRO: r.EmbedRO}, true
		}
		panic(unsupported{"reflect.Value.Convert from " + r.T.String() + " to " + to.String()})
	case "(reflect.Value).Interface":
		r := args[0].(RValV)
		if r.T == nil {
			panic(panicV{msg: "reflect: call of reflect.Value.Interface on zero Value"})
		}
		if r.ro() {
			panic(panicV{msg: "reflect.Value.Interface: cannot return value obtained from unexported field or method"})
		}
		if _, isI := r.T.Underlying().(*types.Interface); isI {
			return r.val(), true
		}
		return IfaceV{T: r.T, V: copyVal(r.val())}, true
	case "(reflect.Value).UnsafeAddr":
		r := args[0].(RValV)
		if !r.Addr || r.Loc == nil {
			panic(panicV{msg: "reflect.Value.UnsafeAddr of unaddressable value"})
		}
		return cbv(64, x.addrOf(r.Loc)), true
	case "(reflect.Value).Addr":
		r := args[0].(RValV)
		if !r.Addr {
			panic(panicV{msg: "reflect.Value.Addr of unaddressable value"})
		}
		return RValV{T: types.NewPointer(r.T), V: PtrV{C: r.Loc}, StickyRO: r.StickyRO, EmbedRO: r.EmbedRO}, true
	case "(reflect.Value).Set":
		x.reflectSet(args[0].(RValV), args[1].(RValV), "reflect.Value.Set")
		return nil, true
	case "(reflect.Value).String":
		r := args[0].(RValV)
		if s, ok := r.val().(StrV); ok {
			return s, true
		}
		return StrV{Opaque: true}, true
	case "(reflect.Value).Bool":
		return args[0].(RValV).val().(BoolV), true
	case "(reflect.Value).Int":
		r := args[0].(RValV)
		b := r.val().(BV)
		return x.convert(b, r.T, types.Typ[types.Int64]), true
	case "(reflect.Value).MethodByName":
		r := args[0].(RValV)
		if r.T == nil {
			panic(panicV{msg: "reflect: call of reflect.Value.MethodByName on zero Value"})
		}
		mn, ok := args[1].(StrV).concrete()
		if !ok {
			panic(unsupported{"Value.MethodByName symbolic name"})
		}
		sel, _ := x.findMethod(r.T, mn)
		if sel == nil {
			return RValV{}, true
		}
		mfn := x.w.prog.MethodValue(sel)
		recv := r.val()
		if _, isI := r.T.Underlying().(*types.Interface); isI {
			iv := recv.(IfaceV)
			if iv.T == nil {
				panic(panicV{msg: "reflect: Method on nil interface value"})
			}
			s2 := x.w.prog.MethodSets.MethodSet(iv.T).Lookup(sel.Obj().Pkg(), mn)
			mfn = x.w.prog.MethodValue(s2)
			recv = iv.V
		}
		bound := FuncV{Native: func(x *Exec, a []Val) Val {
			return x.call(FuncV{Fn: mfn}, append([]Val{recv}, a...), "reflect method "+mn)
		}, Tag: mn}
		sig := sel.Type().(*types.Signature)
		return RValV{T: types.NewSignatureType(nil, nil, nil, sig.Params(), sig.Results(), sig.Variadic()), V: bound, StickyRO: r.ro()}, true
	case "(reflect.Value).Call":
		r := args[0].(RValV)
		fv, ok := r.val().(FuncV)
		if !ok {
			panic(panicV{msg: "reflect: call of reflect.Value.Call on non-func Value"})
		}
		sig := r.T.Underlying().(*types.Signature)
		var in []Val
		if sl, ok := args[1].(SliceV); ok {
			for i := 0; i < sl.Len; i++ {
				a := sl.A.E[sl.Off+i].V.(RValV)
				in = append(in, a.val())
			}
		}
		if len(in) != sig.Params().Len() {
			panic(panicV{msg: "reflect: Call with wrong number of input arguments"})
		}
		res := x.call(fv, in, "reflect.Value.Call")
		var outs []Val
		switch sig.Results().Len() {
		case 0:
		case 1:
			outs = []Val{res}
		default:
			outs = res.(TupleV)
		}
		a := &ArrV{E: make([]*Cell, len(outs))}
		for i, o := range outs {
			a.E[i] = &Cell{V: RValV{T: sig.Results().At(i).Type(), V: o}}
		}
		if len(outs) == 0 {
			return SliceV{}, true
		}
		return SliceV{A: a, Len: len(outs), Cap: len(outs)}, true
	}
	panic(unsupported{"reflect model: " + name})
}

func (x *Exec) rvElem(r RValV) RValV {
	if r.T == nil {
		panic(panicV{msg: "reflect: call of reflect.Value.Elem on zero Value"})
	}
	switch u := r.T.Underlying().(type) {
	case *types.Pointer:
		p := r.val().(PtrV)
		if p.C == nil {
			return RValV{}
		}
		return RValV{T: u.Elem(), Loc: p.C, Addr: true, StickyRO: r.StickyRO, EmbedRO: r.EmbedRO}
	case *types.Interface:
		iv := r.val().(IfaceV)
		if iv.T == nil {
			return RValV{}
		}
		return RValV{T: iv.T, V: iv.V, StickyRO: r.ro()}
	}
	panic(panicV{msg: "reflect: call of reflect.Value.Elem on " + typeString(r.T) + " Value"})
}

// deepEqual: reflect.DeepEqual over engine values (interfaces, pointers, structs, arrays, slices,
// strings, integers, booleans); maps and anything else are not modelled.
func (x *Exec) deepEqual(a, b Val, seen map[[2]*Cell]bool, depth int) BoolV {
	if depth > 12 {
		panic(unsupported{"reflect.DeepEqual: nesting too deep"})
	}
	switch av := a.(type) {
	case IfaceV:
		bv, ok := b.(IfaceV)
		if !ok {
			return cbool(false)
		}
		if av.T == nil || bv.T == nil {
			return cbool(av.T == nil && bv.T == nil)
		}
		if !types.Identical(av.T, bv.T) {
			return cbool(false)
		}
		return x.deepEqual(av.V, bv.V, seen, depth+1)
	case PtrV:
		bv, ok := b.(PtrV)
		if !ok {
			return cbool(false)
		}
		if av.C == nil || bv.C == nil {
			return cbool(av.C == nil && bv.C == nil)
		}
		if av.C == bv.C {
			return cbool(true)
		}
		k := [2]*Cell{av.C, bv.C}
		if seen[k] {
			return cbool(true)
		}
		seen[k] = true
		return x.deepEqual(av.C.V, bv.C.V, seen, depth+1)
	case *StructV:
		bv, ok := b.(*StructV)
		if !ok || len(av.F) != len(bv.F) {
			return cbool(false)
		}
		for i := range av.F {
			if !x.branch(x.deepEqual(av.F[i].V, bv.F[i].V, seen, depth+1)) {
				return cbool(false)
			}
		}
		return cbool(true)
	case StructV:
		bv, ok := b.(StructV)
		if !ok {
			return cbool(false)
		}
		return x.deepEqual(&av, &bv, seen, depth)
	case SliceV:
		bv, ok := b.(SliceV)
		if !ok || av.Len != bv.Len || (av.A == nil) != (bv.A == nil) {
			return cbool(false)
		}
		for i := 0; i < av.Len; i++ {
			if !x.branch(x.deepEqual(av.A.E[av.Off+i].V, bv.A.E[bv.Off+i].V, seen, depth+1)) {
				return cbool(false)
			}
		}
		return cbool(true)
	case *ArrV:
		bv, ok := b.(*ArrV)
		if !ok || len(av.E) != len(bv.E) {
			return cbool(false)
		}
		for i := range av.E {
			if !x.branch(x.deepEqual(av.E[i].V, bv.E[i].V, seen, depth+1)) {
				return cbool(false)
			}
		}
		return cbool(true)
	case StrV, BV, BoolV:
		return x.valEq(a, b)
	case nil:
		return cbool(b == nil)
	}
	panic(unsupported{fmt.Sprintf("reflect.DeepEqual over %T", a)})
}

func derefStruct(t types.Type) (*types.Struct, bool) {
	if p, ok := t.Underlying().(*types.Pointer); ok {
		t = p.Elem()
	}
	st, ok := t.Underlying().(*types.Struct)
	return st, ok
}

func (x *Exec) pkgOfType(t types.Type) *types.Package {
	if n, ok := t.(*types.Named); ok && n.Obj() != nil {
		return n.Obj().Pkg()
	}
	return nil
}

// setStructField overwrites one named field of a struct value built by fillStruct
func (x *Exec) setStructField(t types.Type, sv *StructV, name string, v Val) {
	st := t.Underlying().(*types.Struct)
	for i := 0; i < st.NumFields(); i++ {
		if st.Field(i).Name() == name {
			sv.F[i].V = v
			return
		}
	}
}

// reflectFn finds the SSA function of a reflect method by its printed name
func (x *Exec) reflectFn(name string) *ssa.Function {
	if f, ok := x.w.byName.Load(name); ok {
		return f.(*ssa.Function)
	}
	rp := x.w.pkg("reflect")
	vt := rp.Type("Value").Type()
	ms := x.w.prog.MethodSets.MethodSet(vt)
	for i := 0; i < ms.Len(); i++ {
		f := x.w.prog.MethodValue(ms.At(i))
		if f != nil && x.w.name(f) == name {
			x.w.byName.Store(name, f)
			return f
		}
	}
	panic(unsupported{"reflect model: " + name + " not found"})
}
