package main

import (
	"go/types"

	"golang.org/x/tools/go/ssa"
)

const modelsPath = "github.com/go-kid/ioc/zzverif/models"

// libStub: contract stubs of third-party libraries and engine hooks of the models package.
func (x *Exec) libStub(fn *ssa.Function, args []Val, site string) (Val, bool) {
	name := x.w.name(fn)
	switch name {
	case "encoding/json.Marshal":
		// only the two values the container itself produces here: an empty map and an empty list
		iv, _ := args[0].(IfaceV)
		switch v := iv.V.(type) {
		case *MapV:
			if v != nil && len(v.Ent) == 0 {
				x.stubsUsed["encoding/json.Marshal (empty map/list only)"] = true
				return TupleV{x.convert(cstr("{}"), types.Typ[types.String], types.NewSlice(types.Typ[types.Byte])), IfaceV{}}, true
			}
		case SliceV:
			if v.A != nil && v.Len == 0 {
				x.stubsUsed["encoding/json.Marshal (empty map/list only)"] = true
				return TupleV{x.convert(cstr("[]"), types.Typ[types.String], types.NewSlice(types.Typ[types.Byte])), IfaceV{}}, true
			}
		}
		panic(unsupported{"encoding/json.Marshal of a non-empty value"})
	case modelsPath + ".Unmodelled":
		s, _ := args[0].(StrV).concrete()
		panic(unsupported{"model gap: " + s})
	}
	return nil, false
}
