package main

import (
	"golang.org/x/tools/go/ssa"
)

const modelsPath = "github.com/go-kid/ioc/zzverif/models"

// libStub: contract stubs of third-party libraries and engine hooks of the models package.
func (x *Exec) libStub(fn *ssa.Function, args []Val, site string) (Val, bool) {
	name := fn.String()
	switch name {
	case modelsPath + ".Unmodelled":
		s, _ := args[0].(StrV).concrete()
		panic(unsupported{"model gap: " + s})
	}
	return nil, false
}
