package main

import (
	"encoding/json"
	"fmt"
	"go/types"
	"os"
	"reflect"
	"strconv"
	"strings"

	"golang.org/x/tools/go/ssa"
)

const modelsPath = "github.com/go-kid/ioc/zzverif/models"

// libStub: contract stubs of third-party libraries and engine hooks of the models package.
func (x *Exec) libStub(fn *ssa.Function, args []Val, site string) (Val, bool) {
	name := x.w.name(fn)
	if strings.HasPrefix(name, "(*github.com/spf13/viper.Viper).") || name == "github.com/spf13/viper.New" || name == "os.Setenv" || name == "gopkg.in/yaml.v3.Marshal" {
		if v, ok := x.viperStub(fn, args); ok {
			return v, true
		}
	}
	switch name {
	case "encoding/json.Marshal":
		// only the two values the container itself produces here: an empty map and an empty list
		iv, _ := args[0].(IfaceV)
		switch v := iv.V.(type) {
		case *MapV:
			if v != nil && len(v.Ent) == 0 {
				x.stubsUsed["encoding/json.Marshal (empty map/list only)"] = true
				return TupleV{x.convert(cstr("{}"), types.Typ[types.String], types.NewSlice(types.Typ[types.Byte])), IfaceV{}}, true
			}
		case SliceV:
			if v.A != nil && v.Len == 0 {
				x.stubsUsed["encoding/json.Marshal (empty map/list only)"] = true
				return TupleV{x.convert(cstr("[]"), types.Typ[types.String], types.NewSlice(types.Typ[types.Byte])), IfaceV{}}, true
			}
		}
		// any other concrete value: the real encoding/json natively
		if nv, ok := x.toNative(iv); ok {
			if out, err := json.Marshal(nv); err == nil {
				x.stubsUsed["encoding/json.Marshal (real encoding/json, natively, on concrete values)"] = true
				return TupleV{x.convert(cstr(string(out)), types.Typ[types.String], types.NewSlice(types.Typ[types.Byte])), IfaceV{}}, true
			}
			return TupleV{SliceV{}, x.opaqueErr()}, true
		}
		panic(unsupported{"encoding/json.Marshal of a non-empty value that is not concrete"})
	case "encoding/json.Valid":
		// the real encoding/json, natively, on the concretised text
		bs := types.NewSlice(types.Typ[types.Byte])
		txt := x.concStr(x.convert(args[0], bs, types.Typ[types.String]).(StrV), 128, "json.Valid text")
		x.stubsUsed["encoding/json.Valid (real encoding/json, natively, on concretised text)"] = true
		return cbool(json.Valid([]byte(txt))), true
	case "encoding/json.Unmarshal":
		// only texts denoting an empty list or an empty map (what a two-byte default can spell)
		bs := types.NewSlice(types.Typ[types.Byte])
		txt := x.concStr(x.convert(args[0], bs, types.Typ[types.String]).(StrV), 128, "json.Unmarshal text")
		var nat any
		if err := json.Unmarshal([]byte(txt), &nat); err != nil {
			return x.opaqueErr(), true
		}
		dst, _ := args[1].(IfaceV)
		p, okp := dst.V.(PtrV)
		if okp && p.C != nil {
			switch nv := nat.(type) {
			case []any:
				if len(nv) == 0 {
					if sl, isSl := p.C.V.(SliceV); isSl && sl.A != nil && sl.Len == 0 {
						x.stubsUsed["encoding/json.Unmarshal (empty list/map only)"] = true
						return IfaceV{}, true // destination already holds an empty non-nil list: json keeps it, length 0
					}
				}
			case map[string]any:
				if len(nv) == 0 {
					if m, isM := p.C.V.(*MapV); isM && m != nil && len(m.Ent) == 0 {
						x.stubsUsed["encoding/json.Unmarshal (empty list/map only)"] = true
						return IfaceV{}, true
					}
				}
			}
		}
		panic(unsupported{"encoding/json.Unmarshal of a non-empty value"})
	case "github.com/mitchellh/mapstructure.NewDecoder":
		// contract stub: the decoder is represented by its configuration
		x.stubsUsed["mapstructure.Decoder (contract stub: scalar conversions of WeaklyTypedInput only)"] = true
		return TupleV{PtrV{C: &Cell{V: args[0]}}, IfaceV{}}, true
	case "(*github.com/mitchellh/mapstructure.Decoder).Decode":
		return x.mapstructureDecode(args[0].(PtrV).C.V.(PtrV), args[1].(IfaceV)), true
	// ---- expr-lang: uninterpreted function of the expression text.  Run returns the string
	// "<text>", an injective image of exactly the text that was compiled.
	case "github.com/expr-lang/expr.Compile":
		// concrete text: the real expr-lang (compiled natively by the engine); symbolic text: uninterpreted
		if txt, ok := args[0].(StrV).concrete(); ok {
			x.stubsUsed["expr.Compile/Run (real expr-lang, natively, on concrete text)"] = true
			if _, err := nativeExpr(txt); err != nil {
				if _, cerr := nativeCompile(txt); cerr != nil {
					return TupleV{PtrV{}, x.opaqueErr()}, true
				}
			}
			return TupleV{PtrV{C: &Cell{V: args[0]}}, IfaceV{}}, true
		}
		x.stubsUsed["expr.Compile/Run (uninterpreted on symbolic text: result = \"<\"+text+\">\")"] = true
		return TupleV{PtrV{C: &Cell{V: args[0]}}, IfaceV{}}, true
	case "github.com/expr-lang/expr.Run":
		p := args[0].(PtrV)
		if p.C == nil {
			return TupleV{IfaceV{}, x.opaqueErr()}, true
		}
		txt := p.C.V.(StrV)
		if ct, ok := txt.concrete(); ok {
			res, err := nativeExpr(ct)
			if err != nil {
				return TupleV{IfaceV{}, x.opaqueErr()}, true
			}
			switch r := res.(type) {
			case int:
				return TupleV{IfaceV{T: types.Typ[types.Int], V: cbv(64, uint64(int64(r)))}, IfaceV{}}, true
			case float64:
				f := r
				return TupleV{IfaceV{T: types.Typ[types.Float64], V: OpaqueV{Kind: "float", Key: "f:" + strconv.FormatFloat(f, 'g', -1, 64), F: &f}}, IfaceV{}}, true
			case bool:
				return TupleV{IfaceV{T: types.Typ[types.Bool], V: cbool(r)}, IfaceV{}}, true
			case string:
				return TupleV{IfaceV{T: types.Typ[types.String], V: cstr(r)}, IfaceV{}}, true
			case nil:
				return TupleV{IfaceV{}, IfaceV{}}, true
			}
			panic(unsupported{fmt.Sprintf("expr result of type %T", res)})
		}
		out := StrV{B: append(append([]BV{cbv(8, '<')}, txt.B...), cbv(8, '>')), Opaque: txt.Opaque}
		return TupleV{IfaceV{T: types.Typ[types.String], V: out}, IfaceV{}}, true
	// ---- go-playground/validator: verdict = uninterpreted function of (value, constraint text),
	// except required/min/max on strings, which are modelled (length of an ASCII string)
	case "github.com/go-playground/validator/v10.New":
		// the handle records which options it was built with (bit 0: WithRequiredStructEnabled)
		h := PtrV{C: &Cell{V: cbv(64, 0)}}
		for _, o := range sliceVals(args[0]) {
			fv, ok := o.(FuncV)
			if !ok || fv.Tag != "validator.WithRequiredStructEnabled" {
				panic(unsupported{"validator.New with an option other than WithRequiredStructEnabled"})
			}
			h.C.V = cbv(64, 1)
		}
		return h, true
	case "github.com/go-playground/validator/v10.WithRequiredStructEnabled":
		return FuncV{Native: func(x *Exec, a []Val) Val { return nil }, Tag: "validator.WithRequiredStructEnabled"}, true
	case "(*github.com/go-playground/validator/v10.Validate).Var":
		return x.validatorVerdict(args[1].(IfaceV), args[2].(StrV)), true
	case "(*github.com/go-playground/validator/v10.Validate).Struct":
		// concrete struct value: rebuilt natively (reflect.StructOf with the declared field tags) and
		// decided by the real validator configured with the handle's options
		iv := args[1].(IfaceV)
		reqStruct := false
		if hp, ok := args[0].(PtrV); ok && hp.C != nil {
			if b, ok := hp.C.V.(BV); ok && b.Con && b.C == 1 {
				reqStruct = true
			}
		}
		if iv.T != nil {
			rv, ok := x.nativeValue(iv.T, iv.V, 0)
			if os.Getenv("VERIF_DEBUG_VALIDATOR") != "" {
				fmt.Fprintf(os.Stderr, "DEBUG validator.Struct val=%T %#v reqStruct=%v type=%v native=%v\n", iv.V, iv.V, reqStruct, iv.T, ok)
			}
			if ok {
				x.stubsUsed["validator.Struct (real go-playground/validator, natively, on a concrete struct rebuilt with reflect.StructOf)"] = true
				if err := nativeValidateStruct(rv.Interface(), reqStruct); err != nil {
					if _, isPanic := err.(errPanicInValidator); isPanic {
						panic(panicV{msg: "validator panicked on a struct"})
					}
					return x.opaqueErr(), true
				}
				return IfaceV{}, true
			}
		}
		return x.validatorVerdict(iv, cstr(fmt.Sprintf("<struct,%v>", reqStruct))), true
	case modelsPath + ".Unmodelled":
		s, _ := args[0].(StrV).concrete()
		panic(unsupported{"model gap: " + s})
	}
	return nil, false
}

// mapstructureDecode: contract of Decoder.Decode for the scalar cases the harnesses use
// (WeaklyTypedInput = true, as go-kid/ioc configures it).  Anything else is inconclusive.
func (x *Exec) mapstructureDecode(cfg PtrV, in IfaceV) Val {
	cs := cfg.C.V.(*StructV)
	// locate DecoderConfig.Result
	var result IfaceV
	found := false
	for _, c := range cs.F {
		if iv, ok := c.V.(IfaceV); ok && iv.T != nil {
			if _, isPtr := iv.T.Underlying().(*types.Pointer); isPtr {
				result, found = iv, true
			}
		}
	}
	if !found {
		panic(unsupported{"mapstructure: Result not found"})
	}
	if in.T == nil {
		return IfaceV{}
	}
	tt := result.T.Underlying().(*types.Pointer).Elem()
	dst := result.V.(PtrV).C
	fail := func(why string) Val { panic(unsupported{"mapstructure stub: " + why}) }
	switch {
	case isString(tt):
		switch v := in.V.(type) {
		case StrV:
			dst.V = v
		case BoolV:
			if x.branch(v) {
				dst.V = cstr("1")
			} else {
				dst.V = cstr("0")
			}
		case OpaqueV:
			if v.F == nil {
				return fail("symbolic float -> string")
			}
			dst.V = cstr(strconv.FormatFloat(*v.F, 'f', -1, 64))
		case BV:
			if !v.Con {
				return fail("symbolic int -> string")
			}
			dst.V = cstr(strconv.FormatInt(sext(v), 10))
		default:
			return fail(fmt.Sprintf("%T -> string", in.V))
		}
	case isBool(tt):
		switch v := in.V.(type) {
		case BoolV:
			dst.V = v
		case StrV:
			s, ok := v.concrete()
			if !ok {
				return fail("symbolic string -> bool")
			}
			b, err := strconv.ParseBool(s)
			if err != nil {
				if s == "" {
					dst.V = cbool(false)
				} else {
					return x.opaqueErr()
				}
			} else {
				dst.V = cbool(b)
			}
		default:
			return fail(fmt.Sprintf("%T -> bool", in.V))
		}
	default:
		if w, signed, ok := bvWidth(tt); ok {
			switch v := in.V.(type) {
			case OpaqueV:
				if v.F == nil {
					return fail("symbolic float -> int")
				}
				if signed {
					dst.V = cbv(w, uint64(int64(*v.F)))
				} else {
					dst.V = cbv(w, uint64(*v.F))
				}
			case BV:
				dst.V = x.convert(v, in.T, tt)
			case StrV:
				s, ok := v.concrete()
				if !ok {
					return fail("symbolic string -> int")
				}
				if s == "" {
					dst.V = cbv(w, 0)
				} else if signed {
					i, err := strconv.ParseInt(s, 0, w)
					if err != nil {
						return x.opaqueErr()
					}
					dst.V = cbv(w, uint64(i))
				} else {
					i, err := strconv.ParseUint(s, 0, w)
					if err != nil {
						return x.opaqueErr()
					}
					dst.V = cbv(w, i)
				}
			default:
				return fail(fmt.Sprintf("%T -> int", in.V))
			}
			return IfaceV{}
		}
		if isFloat(tt) {
			switch v := in.V.(type) {
			case OpaqueV:
				dst.V = v
				return IfaceV{}
			case StrV:
				if s, ok := v.concrete(); ok {
					fv, err := strconv.ParseFloat(s, 64)
					if err != nil {
						return x.opaqueErr()
					}
					dst.V = OpaqueV{Kind: "float", Key: "f:" + strconv.FormatFloat(fv, 'g', -1, 64), F: &fv}
					return IfaceV{}
				}
			case BV:
				if v.Con {
					fv := float64(sext(v))
					dst.V = OpaqueV{Kind: "float", Key: "f:" + strconv.FormatFloat(fv, 'g', -1, 64), F: &fv}
					return IfaceV{}
				}
			}
		}
		return fail(fmt.Sprintf("%T -> %s", in.V, tt.String()))
	}
	return IfaceV{}
}

func (x *Exec) validatorVerdict(val IfaceV, tag StrV) Val {
	t, ok := tag.concrete()
	if !ok {
		panic(unsupported{"validator: symbolic constraint text"})
	}
	// fully concrete value: the real validator decides
	var gv any
	have := false
	switch v := val.V.(type) {
	case StrV:
		if c, ok := v.concrete(); ok {
			gv, have = c, true
		}
	case BV:
		if v.Con {
			if _, signed, _ := bvWidth(val.T); signed {
				gv, have = sext(v), true
			} else {
				gv, have = v.C, true
			}
		}
	case BoolV:
		if v.Con {
			gv, have = v.C, true
		}
	case OpaqueV:
		if v.F != nil {
			gv, have = *v.F, true
		}
	case PtrV:
		if val.T != nil {
			if rv, ok := x.nativeValue(val.T, v, 0); ok {
				gv, have = rv.Interface(), true
			}
		}
	}
	if have {
		x.stubsUsed["validator.Var (real go-playground/validator, natively, on concrete values)"] = true
		if err := nativeValidate(gv, t); err != nil {
			if _, isPanic := err.(errPanicInValidator); isPanic {
				panic(panicV{msg: "validator panicked on constraint " + t})
			}
			return x.opaqueErr()
		}
		return IfaceV{}
	}
	if _, isStr := val.V.(StrV); isStr {
		// a constraint text the validator cannot even parse (undefined rule) panics whatever the value is
		if err := nativeValidate("x", t); err != nil {
			if _, isPanic := err.(errPanicInValidator); isPanic {
				panic(panicV{msg: "validator panicked on constraint " + t})
			}
		}
	}
	if sv, isStr := val.V.(StrV); isStr && !sv.Opaque {
		// symbolic ASCII string: required / min / max / omitempty are modelled on its (concrete) length
		violated := false
		modelled := true
		for _, part := range strings.Split(t, ",") {
			if violated {
				break
			}
			switch {
			case part == "omitempty":
				if len(sv.B) == 0 {
					return IfaceV{}
				}
			case part == "required":
				if len(sv.B) == 0 {
					violated = true
				}
			case strings.HasPrefix(part, "min="):
				n, err := strconv.Atoi(part[4:])
				if err != nil {
					modelled = false
				} else if len(sv.B) < n {
					violated = true
				}
			case strings.HasPrefix(part, "max="):
				n, err := strconv.Atoi(part[4:])
				if err != nil {
					modelled = false
				} else if len(sv.B) > n {
					violated = true
				}
			default:
				modelled = false
			}
		}
		if modelled {
			x.stubsUsed["validator.Var (required/min/max/omitempty on symbolic ASCII strings modelled)"] = true
			if violated {
				return x.opaqueErr()
			}
			return IfaceV{}
		}
	}
	// uninterpreted: the same (value, constraint) pair always gets the same verdict on a path
	x.stubsUsed["validator.Var (uninterpreted verdict on symbolic values)"] = true
	key := x.showVal(val) + "|" + t
	if x.uf == nil {
		x.uf = map[string]BoolV{}
	}
	b, ok := x.uf[key]
	if !ok {
		b = x.freshBool()
		x.uf[key] = b
	}
	if x.branch(b) {
		return x.opaqueErr()
	}
	return IfaceV{}
}

// nativeValue rebuilds a fully concrete engine value of type t as a native Go value (strings,
// integers, booleans, structs of those with their declared tags, pointers to structs).
func (x *Exec) nativeValue(t types.Type, v Val, depth int) (reflect.Value, bool) {
	if depth > 6 {
		return reflect.Value{}, false
	}
	switch u := t.Underlying().(type) {
	case *types.Basic:
		switch {
		case u.Kind() == types.String:
			sv, ok := v.(StrV)
			if !ok {
				return reflect.Value{}, false
			}
			c, ok := sv.concrete()
			if !ok {
				return reflect.Value{}, false
			}
			return reflect.ValueOf(c), true
		case u.Kind() == types.Bool:
			b, ok := v.(BoolV)
			if !ok || !b.Con {
				return reflect.Value{}, false
			}
			return reflect.ValueOf(b.C), true
		case u.Info()&types.IsInteger != 0:
			b, ok := v.(BV)
			if !ok || !b.Con {
				return reflect.Value{}, false
			}
			if _, signed, _ := bvWidth(t); signed {
				return reflect.ValueOf(int(sext(b))), true
			}
			return reflect.ValueOf(uint(b.C)), true
		}
	case *types.Pointer:
		p, ok := v.(PtrV)
		if !ok {
			return reflect.Value{}, false
		}
		if _, isStruct := u.Elem().Underlying().(*types.Struct); !isStruct {
			// pointer to a scalar: a fresh native variable holding the pointee (nil stays nil)
			if _, isBasic := u.Elem().Underlying().(*types.Basic); !isBasic {
				return reflect.Value{}, false
			}
			zv, ok := x.nativeValue(u.Elem(), x.zero(u.Elem()), depth+1)
			if !ok {
				return reflect.Value{}, false
			}
			if p.C == nil {
				return reflect.Zero(reflect.PointerTo(zv.Type())), true
			}
			ev, ok := x.nativeValue(u.Elem(), p.C.V, depth+1)
			if !ok {
				return reflect.Value{}, false
			}
			pv := reflect.New(ev.Type())
			pv.Elem().Set(ev)
			return pv, true
		}
		if p.C == nil {
			// typed nil pointer: the element type is still needed
			zero, ok := x.nativeZeroType(u.Elem(), depth+1)
			if !ok {
				return reflect.Value{}, false
			}
			return reflect.Zero(reflect.PointerTo(zero)), true
		}
		ev, ok := x.nativeValue(u.Elem(), p.C.V, depth+1)
		if !ok {
			return reflect.Value{}, false
		}
		pv := reflect.New(ev.Type())
		pv.Elem().Set(ev)
		return pv, true
	case *types.Struct:
		var sv StructV
		switch t := v.(type) {
		case StructV:
			sv = t
		case *StructV:
			if t == nil {
				return reflect.Value{}, false
			}
			sv = *t
		default:
			return reflect.Value{}, false
		}
		if len(sv.F) != u.NumFields() {
			return reflect.Value{}, false
		}
		var fields []reflect.StructField
		var vals []reflect.Value
		for i := 0; i < u.NumFields(); i++ {
			f := u.Field(i)
			if !f.Exported() || f.Embedded() {
				if f.Embedded() {
					return reflect.Value{}, false
				}
				continue // the validator skips unexported fields
			}
			fv, ok := x.nativeValue(f.Type(), sv.F[i].V, depth+1)
			if !ok {
				return reflect.Value{}, false
			}
			fields = append(fields, reflect.StructField{Name: f.Name(), Type: fv.Type(), Tag: reflect.StructTag(u.Tag(i))})
			vals = append(vals, fv)
		}
		st := reflect.New(reflect.StructOf(fields)).Elem()
		for i, fv := range vals {
			st.Field(i).Set(fv)
		}
		return st, true
	}
	return reflect.Value{}, false
}

func (x *Exec) nativeZeroType(t types.Type, depth int) (reflect.Type, bool) {
	u, ok := t.Underlying().(*types.Struct)
	if !ok {
		return nil, false
	}
	_ = u
	rv, ok := x.nativeValue(t, x.zero(t), depth)
	if !ok {
		return nil, false
	}
	return rv.Type(), true
}
