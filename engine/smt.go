package main

import (
	"bufio"
	"fmt"
	"io"
	"os/exec"
	"strings"
	"time"
)

// Solver is one incremental SMT solver process (z3 -in by default).  All
// communication is SMT-LIB2 text; any "(error" line or an answer other than
// sat/unsat makes the query inconclusive (never "holds").
type Solver struct {
	cmd     *exec.Cmd
	in      io.WriteCloser
	out     *bufio.Reader
	w       *bufio.Writer
	Time    time.Duration
	N       int
	log     *strings.Builder // optional transcript of assert/safety queries
	rec     bool
	lines   []string
	answers []string
}

type solverUnknown struct{ msg string }

func NewSolver(bin string, args ...string) *Solver {
	c := exec.Command(bin, args...)
	in, _ := c.StdinPipe()
	out, _ := c.StdoutPipe()
	if err := c.Start(); err != nil {
		panic(err)
	}
	s := &Solver{cmd: c, in: in, out: bufio.NewReaderSize(out, 1<<16), w: bufio.NewWriterSize(in, 1<<16)}
	return s
}

func newDefaultSolver() *Solver {
	// -t: soft timeout per check in ms
	return NewSolver("z3", "-in", "-t:20000")
}

func (s *Solver) send(l string) {
	s.w.WriteString(l)
	s.w.WriteByte('\n')
	if s.rec && !strings.HasPrefix(l, "(get-value") && !strings.HasPrefix(l, "(echo") {
		s.lines = append(s.lines, l)
	}
}

func (s *Solver) readLine() string {
	line, err := s.out.ReadString('\n')
	if err != nil {
		panic(solverUnknown{"solver died: " + err.Error()})
	}
	return strings.TrimSpace(line)
}

func (s *Solver) readAnswer() bool {
	line := s.readLine()
	if s.rec {
		s.answers = append(s.answers, line)
	}
	switch line {
	case "sat":
		return true
	case "unsat":
		return false
	}
	panic(solverUnknown{"solver said: " + line})
}

// check: is (pc ∧ extra) satisfiable?
func (s *Solver) check(extra string) bool {
	t0 := time.Now()
	s.send("(push)")
	s.send("(assert " + extra + ")")
	s.send("(check-sat)")
	s.send("(pop)")
	s.w.Flush()
	r := s.readAnswer()
	s.Time += time.Since(t0)
	s.N++
	return r
}

// checkModel: is (pc ∧ extra) satisfiable, and if so return values of terms.
func (s *Solver) checkModel(extra string, terms []string) (bool, []string) {
	t0 := time.Now()
	defer func() { s.Time += time.Since(t0); s.N++ }()
	s.send("(push)")
	if extra != "" {
		s.send("(assert " + extra + ")")
	}
	s.send("(check-sat)")
	s.w.Flush()
	if !s.readAnswer() {
		s.send("(pop)")
		return false, nil
	}
	vals := make([]string, len(terms))
	if len(terms) > 0 {
		// ask in chunks to keep lines short
		for i := 0; i < len(terms); i += 50 {
			j := i + 50
			if j > len(terms) {
				j = len(terms)
			}
			s.send("(get-value (" + strings.Join(terms[i:j], " ") + "))")
			s.send("(echo \"END\")")
			s.w.Flush()
			var sb strings.Builder
			for {
				line := s.readLine()
				if line == "END" {
					break
				}
				sb.WriteString(line + " ")
			}
			txt := sb.String()
			if strings.Contains(txt, "(error") {
				panic(solverUnknown{"get-value: " + txt})
			}
			pairs := parseSexpr(txt)
			if len(pairs.kids) != j-i {
				panic(solverUnknown{fmt.Sprintf("get-value arity: %s", txt)})
			}
			for k, p := range pairs.kids {
				vals[i+k] = p.kids[len(p.kids)-1].String()
			}
		}
	}
	s.send("(pop)")
	return true, vals
}

func (s *Solver) close() {
	s.in.Close()
	done := make(chan struct{})
	go func() { s.cmd.Wait(); close(done) }()
	select {
	case <-done:
	case <-time.After(2 * time.Second):
		s.cmd.Process.Kill()
	}
}

// ---- tiny s-expression reader (for get-value output)

type sx struct {
	atom string
	kids []*sx
	list bool
}

func (e *sx) String() string {
	if !e.list {
		return e.atom
	}
	p := make([]string, len(e.kids))
	for i, k := range e.kids {
		p[i] = k.String()
	}
	return "(" + strings.Join(p, " ") + ")"
}

func parseSexpr(s string) *sx {
	pos := 0
	var rd func() *sx
	skip := func() {
		for pos < len(s) && (s[pos] == ' ' || s[pos] == '\n' || s[pos] == '\t' || s[pos] == '\r') {
			pos++
		}
	}
	rd = func() *sx {
		skip()
		if pos >= len(s) {
			return nil
		}
		if s[pos] == '(' {
			pos++
			e := &sx{list: true}
			for {
				skip()
				if pos >= len(s) {
					return e
				}
				if s[pos] == ')' {
					pos++
					return e
				}
				e.kids = append(e.kids, rd())
			}
		}
		st := pos
		if s[pos] == '|' {
			pos++
			for pos < len(s) && s[pos] != '|' {
				pos++
			}
			pos++
			return &sx{atom: s[st:pos]}
		}
		if s[pos] == '"' {
			pos++
			for pos < len(s) && s[pos] != '"' {
				pos++
			}
			pos++
			return &sx{atom: s[st:pos]}
		}
		for pos < len(s) && s[pos] != ' ' && s[pos] != '(' && s[pos] != ')' && s[pos] != '\n' {
			pos++
		}
		return &sx{atom: s[st:pos]}
	}
	return rd()
}

// parse an SMT value: #x.., #b.., true, false, (_ bvN W)
func smtValToInt(v string) (uint64, bool) {
	v = strings.TrimSpace(v)
	switch {
	case v == "true":
		return 1, true
	case v == "false":
		return 0, true
	case strings.HasPrefix(v, "#x"):
		var r uint64
		_, err := fmt.Sscanf(v[2:], "%x", &r)
		return r, err == nil
	case strings.HasPrefix(v, "#b"):
		var r uint64
		for _, c := range v[2:] {
			r = r<<1 | uint64(c-'0')
		}
		return r, true
	case strings.HasPrefix(v, "(_ bv"):
		var r uint64
		var w int
		_, err := fmt.Sscanf(v, "(_ bv%d %d)", &r, &w)
		return r, err == nil
	}
	return 0, false
}

// Transcript: every command of one explored path (declarations, assertions, push/pop,
// check-sat) with z3's answers, for re-deciding by other solvers.
type Transcript struct {
	Lines   []string
	Answers []string
}

// crossSolve feeds transcripts to another incremental solver and counts disagreements.
func crossSolve(bin string, args []string, prelude string, ts []Transcript) (checked, disagree int, err error) {
	s := NewSolver(bin, args...)
	defer s.close()
	if prelude != "" {
		s.send(prelude)
	}
	for _, t := range ts {
		s.send("(push 1)")
		ai := 0
		for _, l := range t.Lines {
			if l == "(push)" {
				l = "(push 1)"
			}
			if l == "(pop)" {
				l = "(pop 1)"
			}
			s.send(l)
			if l == "(check-sat)" {
				s.w.Flush()
				line, e := s.out.ReadString('\n')
				if e != nil {
					return checked, disagree, fmt.Errorf("%s died: %v", bin, e)
				}
				line = strings.TrimSpace(line)
				if strings.HasPrefix(line, "(error") {
					return checked, disagree, fmt.Errorf("%s: %s", bin, line)
				}
				if ai < len(t.Answers) {
					checked++
					if line != t.Answers[ai] {
						disagree++
					}
				}
				ai++
			}
		}
		s.send("(pop 1)")
	}
	s.w.Flush()
	return checked, disagree, nil
}
