package main

import (
	"fmt"
	"go/types"
	"strings"

	"golang.org/x/tools/go/ssa"
)

// ---------- values ----------
//
// Heap shape, dynamic types, lengths and closures are concrete on every path;
// booleans, integers and the bytes of strings are SMT terms.

type Val interface{}

type BV struct {
	W   int
	Con bool
	C   uint64
	T   string
}
type BoolV struct {
	Con bool
	C   bool
	T   string
}
type StrV struct {
	B      []BV
	Opaque bool // text not modelled (e.g. result of a non-trivial Sprintf); only identity-free uses allowed
}
type Cell struct {
	V  Val
	rc *raceCell
}
type StructV struct{ F []*Cell }
type ArrV struct{ E []*Cell }
type PtrV struct{ C *Cell }
type SliceV struct {
	A             *ArrV
	Off, Len, Cap int
}
type MapEnt struct{ K, V Val }
type MapV struct {
	Ent  []*MapEnt
	race *Cell // the map object as a whole, for the happens-before race detector (plain Go maps only)
}
type IfaceV struct {
	T types.Type
	V Val
}
type FuncV struct {
	Fn     *ssa.Function
	Bind   []Val
	Bi     *ssa.Builtin
	Native func(x *Exec, args []Val) Val
	Tag    string
}
type TupleV []Val

// ChanV: a channel; blocking operations are scheduling points (see sched.go)
type ChanV struct {
	buf    []chanItem
	cap    int
	closed bool
	taken  int
	sent   int
	cvc    vclock
	timer  bool // the channel of a time.After / time.NewTimer: may deliver at any moment (time is adversarial)
}
type chanItem struct {
	v  Val
	vc vclock
}

// OpaqueV stands for a value the engine does not model (float64 etc.).  It may be
// stored, copied and passed; inspecting it ends the path as inconclusive, except
// through the uninterpreted helpers that know its Key.
type OpaqueV struct {
	Kind string
	Key  string // identity of the uninterpreted application, e.g. parsefloat(<bytes>)
	Src  Val
	F    *float64 // concrete float value, if known
}

type mapIter struct {
	ents []*MapEnt
	i    int
	str  *StrV
}

type panicV struct {
	msg string
	val Val
}                                   // a Go panic inside the code under test
type abortPath struct{ why string } // infeasible / assume-false / path finished early
type unsupported struct{ why string }
type budgetExceeded struct{ why string }

func mask(w int) uint64 {
	if w >= 64 {
		return ^uint64(0)
	}
	return (uint64(1) << uint(w)) - 1
}
func cbv(w int, c uint64) BV { return BV{W: w, Con: true, C: c & mask(w)} }
func (b BV) term() string {
	if b.Con {
		return fmt.Sprintf("(_ bv%d %d)", b.C, b.W)
	}
	return b.T
}
func (b BoolV) term() string {
	if b.Con {
		if b.C {
			return "true"
		}
		return "false"
	}
	return b.T
}
func cbool(c bool) BoolV { return BoolV{Con: true, C: c} }
func sext(b BV) int64 {
	if b.W >= 64 {
		return int64(b.C)
	}
	if b.C&(1<<uint(b.W-1)) != 0 {
		return int64(b.C | ^mask(b.W))
	}
	return int64(b.C)
}
func cstr(s string) StrV {
	r := StrV{B: make([]BV, len(s))}
	for i := 0; i < len(s); i++ {
		r.B[i] = cbv(8, uint64(s[i]))
	}
	return r
}
func (s StrV) concrete() (string, bool) {
	if s.Opaque {
		return "", false
	}
	b := make([]byte, len(s.B))
	for i, x := range s.B {
		if !x.Con {
			return "", false
		}
		b[i] = byte(x.C)
	}
	return string(b), true
}

func andT(parts []string) BoolV {
	switch len(parts) {
	case 0:
		return cbool(true)
	case 1:
		return BoolV{T: parts[0]}
	}
	return BoolV{T: "(and " + strings.Join(parts, " ") + ")"}
}

func notB(b BoolV) BoolV {
	if b.Con {
		return cbool(!b.C)
	}
	if strings.HasPrefix(b.T, "(not ") {
		return BoolV{T: b.T[5 : len(b.T)-1]}
	}
	return BoolV{T: "(not " + b.T + ")"}
}

func andB(a, b BoolV) BoolV {
	if a.Con {
		if !a.C {
			return a
		}
		return b
	}
	if b.Con {
		if !b.C {
			return b
		}
		return a
	}
	return BoolV{T: "(and " + a.T + " " + b.T + ")"}
}

// ---------- type helpers ----------

func bvWidth(t types.Type) (int, bool, bool) { // width, signed, ok
	b, ok := t.Underlying().(*types.Basic)
	if !ok {
		return 0, false, false
	}
	switch b.Kind() {
	case types.Int, types.Int64, types.UntypedInt:
		return 64, true, true
	case types.Int8:
		return 8, true, true
	case types.Int16:
		return 16, true, true
	case types.Int32, types.UntypedRune:
		return 32, true, true
	case types.Uint, types.Uint64, types.Uintptr:
		return 64, false, true
	case types.Uint8:
		return 8, false, true
	case types.Uint16:
		return 16, false, true
	case types.Uint32:
		return 32, false, true
	}
	return 0, false, false
}

func isString(t types.Type) bool {
	b, ok := t.Underlying().(*types.Basic)
	return ok && b.Info()&types.IsString != 0
}
func isBool(t types.Type) bool {
	b, ok := t.Underlying().(*types.Basic)
	return ok && b.Info()&types.IsBoolean != 0
}
func isFloat(t types.Type) bool {
	b, ok := t.Underlying().(*types.Basic)
	return ok && b.Info()&(types.IsFloat|types.IsComplex) != 0
}

func namedIs(t types.Type, pkg, name string) bool {
	n, ok := t.(*types.Named)
	return ok && n.Obj().Name() == name && n.Obj().Pkg() != nil && n.Obj().Pkg().Path() == pkg
}

func (x *Exec) zero(t types.Type) Val {
	if namedIs(t, "reflect", "Value") || namedIs(t, "internal/reflectlite", "Value") {
		return RValV{}
	}
	switch u := t.Underlying().(type) {
	case *types.Basic:
		if w, _, ok := bvWidth(t); ok {
			return cbv(w, 0)
		}
		if isString(t) {
			return StrV{}
		}
		if isBool(t) {
			return cbool(false)
		}
		if u.Kind() == types.UnsafePointer {
			return PtrV{}
		}
		if isFloat(t) {
			z := 0.0
			return OpaqueV{Kind: "float", Key: "f:0", F: &z}
		}
		if u.Kind() == types.UntypedNil {
			return nil
		}
		panic(unsupported{"zero of basic " + t.String()})
	case *types.Pointer:
		return PtrV{}
	case *types.Slice:
		return SliceV{}
	case *types.Map:
		return (*MapV)(nil)
	case *types.Interface:
		return IfaceV{}
	case *types.Signature:
		return FuncV{}
	case *types.Chan:
		return (*ChanV)(nil)
	case *types.Struct:
		s := &StructV{F: make([]*Cell, u.NumFields())}
		for i := range s.F {
			s.F[i] = &Cell{V: x.zero(u.Field(i).Type())}
		}
		return s
	case *types.Array:
		a := &ArrV{E: make([]*Cell, u.Len())}
		for i := range a.E {
			a.E[i] = &Cell{V: x.zero(u.Elem())}
		}
		return a
	case *types.Tuple:
		tv := make(TupleV, u.Len())
		for i := range tv {
			tv[i] = x.zero(u.At(i).Type())
		}
		return tv
	}
	panic(unsupported{"zero of " + t.String()})
}

func (x *Exec) zeroOrNil(t types.Type) Val {
	if b, ok := t.(*types.Basic); ok && b.Kind() == types.Invalid {
		return nil
	}
	return x.zero(t)
}

func copyVal(v Val) Val {
	switch u := v.(type) {
	case *StructV:
		n := &StructV{F: make([]*Cell, len(u.F))}
		for i, c := range u.F {
			n.F[i] = &Cell{V: copyVal(c.V)}
		}
		return n
	case *ArrV:
		n := &ArrV{E: make([]*Cell, len(u.E))}
		for i, c := range u.E {
			n.E[i] = &Cell{V: copyVal(c.V)}
		}
		return n
	}
	return v
}

func assign(dst *Cell, v Val) {
	switch u := v.(type) {
	case *StructV:
		d, ok := dst.V.(*StructV)
		if !ok || len(d.F) != len(u.F) {
			dst.V = copyVal(v)
			return
		}
		for i, c := range u.F {
			assign(d.F[i], c.V)
		}
	case *ArrV:
		d, ok := dst.V.(*ArrV)
		if !ok || len(d.E) != len(u.E) {
			dst.V = copyVal(v)
			return
		}
		for i, c := range u.E {
			assign(d.E[i], c.V)
		}
	default:
		dst.V = v
	}
}

func strEq(a, b StrV) BoolV {
	if a.Opaque || b.Opaque {
		panic(unsupported{"comparison of an opaque string"})
	}
	if len(a.B) != len(b.B) {
		return cbool(false)
	}
	var parts []string
	for i := range a.B {
		p, q := a.B[i], b.B[i]
		if p.Con && q.Con {
			if p.C != q.C {
				return cbool(false)
			}
			continue
		}
		if !p.Con && !q.Con && p.T == q.T {
			continue
		}
		parts = append(parts, "(= "+p.term()+" "+q.term()+")")
	}
	return andT(parts)
}

// lexicographic a < b over byte vectors of concrete lengths
func strLess(a, b StrV) BoolV {
	if a.Opaque || b.Opaque {
		panic(unsupported{"ordering of an opaque string"})
	}
	if s1, ok := a.concrete(); ok {
		if s2, ok := b.concrete(); ok {
			return cbool(s1 < s2)
		}
	}
	// build from the end: less_i = a[i]<b[i] or (a[i]=b[i] and less_{i+1})
	n := len(a.B)
	if len(b.B) < n {
		n = len(b.B)
	}
	var cur BoolV
	if len(a.B) < len(b.B) {
		cur = cbool(true)
	} else {
		cur = cbool(false)
	}
	for i := n - 1; i >= 0; i-- {
		p, q := a.B[i], b.B[i]
		if p.Con && q.Con {
			if p.C < q.C {
				cur = cbool(true)
			} else if p.C > q.C {
				cur = cbool(false)
			}
			continue
		}
		lt := "(bvult " + p.term() + " " + q.term() + ")"
		eq := "(= " + p.term() + " " + q.term() + ")"
		cur = BoolV{T: "(or " + lt + " (and " + eq + " " + cur.term() + "))"}
	}
	return cur
}

func (x *Exec) valEq(a, b Val) BoolV {
	switch u := a.(type) {
	case BV:
		v := b.(BV)
		if u.Con && v.Con {
			return cbool(u.C == v.C)
		}
		if !u.Con && !v.Con && u.T == v.T {
			return cbool(true)
		}
		return BoolV{T: "(= " + u.term() + " " + v.term() + ")"}
	case BoolV:
		v := b.(BoolV)
		if u.Con && v.Con {
			return cbool(u.C == v.C)
		}
		return BoolV{T: "(= " + u.term() + " " + v.term() + ")"}
	case StrV:
		return strEq(u, b.(StrV))
	case PtrV:
		return cbool(u.C == b.(PtrV).C)
	case RTypeV:
		v, ok := b.(RTypeV)
		return cbool(ok && types.Identical(u.T, v.T))
	case IfaceV:
		v := b.(IfaceV)
		if u.T == nil || v.T == nil {
			return cbool(u.T == nil && v.T == nil)
		}
		if !types.Identical(u.T, v.T) {
			return cbool(false)
		}
		if !types.Comparable(u.T) {
			panic(panicV{msg: "runtime error: comparing uncomparable type " + u.T.String()})
		}
		return x.valEq(u.V, v.V)
	case *StructV:
		v := b.(*StructV)
		r := cbool(true)
		for i := range u.F {
			r = andB(r, x.valEq(u.F[i].V, v.F[i].V))
		}
		return r
	case *ArrV:
		v := b.(*ArrV)
		r := cbool(true)
		for i := range u.E {
			r = andB(r, x.valEq(u.E[i].V, v.E[i].V))
		}
		return r
	case SliceV:
		v := b.(SliceV)
		if u.A == nil || v.A == nil {
			return cbool(u.A == nil && v.A == nil)
		}
	case *MapV:
		v := b.(*MapV)
		if u == nil || v == nil {
			return cbool(u == nil && v == nil)
		}
	case *ChanV:
		return cbool(u == b.(*ChanV))
	case FuncV:
		v := b.(FuncV)
		un := u.Fn == nil && u.Bi == nil && u.Native == nil
		vn := v.Fn == nil && v.Bi == nil && v.Native == nil
		if un || vn {
			return cbool(un && vn)
		}
	case OpaqueV:
		v, ok := b.(OpaqueV)
		if ok && u.F != nil && v.F != nil {
			return cbool(*u.F == *v.F)
		}
		if ok && u.Key != "" && u.Key == v.Key {
			return cbool(true)
		}
	case RValV:
		// reflect.Value == reflect.Value: not used by the code under test
	case nil:
		return cbool(b == nil)
	}
	panic(unsupported{fmt.Sprintf("equality on %T", a)})
}
