package main

import (
	"bytes"
	"fmt"
	"go/types"
	"os"
	"sort"

	"github.com/spf13/viper"
	"golang.org/x/tools/go/ssa"
	"gopkg.in/yaml.v3"
)

// The real spf13/viper (and through it the real YAML decoder), linked into the engine and used
// natively on concrete operands, like expr-lang and the validator: go-kid/ioc's own binder code
// (configure/binder) is executed from SSA, every call it makes on its *viper.Viper is performed on a
// native viper instance that belongs to the current path (paths are re-executed from their start, so
// the instance is rebuilt with them).  Symbolic operands are concretised (<= 128 feasible texts) or
// the path is inconclusive.

var (
	tAny      = types.NewInterfaceType(nil, nil).Complete()
	tMapStrAn = types.NewMap(types.Typ[types.String], tAny)
	tSliceAny = types.NewSlice(tAny)
)

func (x *Exec) viperOf(v Val) *viper.Viper {
	p, ok := v.(PtrV)
	if !ok || p.C == nil {
		panic(panicV{msg: "nil *viper.Viper"})
	}
	nv, ok := x.vipers[p.C]
	if !ok {
		panic(unsupported{"a *viper.Viper that was not made by viper.New on this path"})
	}
	return nv
}

func (x *Exec) viperStub(fn *ssa.Function, args []Val) (Val, bool) {
	name := x.w.name(fn)
	const vp = "(*github.com/spf13/viper.Viper)."
	switch name {
	case "github.com/spf13/viper.New":
		if x.vipers == nil {
			x.vipers = map[*Cell]*viper.Viper{}
		}
		c := &Cell{V: cbv(64, uint64(len(x.vipers)+1))}
		x.vipers[c] = viper.New()
		x.stubsUsed["viper (the real spf13/viper and YAML decoder, natively, on concrete operands)"] = true
		return PtrV{C: c}, true
	case vp + "SetConfigType":
		x.viperOf(args[0]).SetConfigType(x.concStr(args[1].(StrV), 128, "viper config type"))
		return nil, true
	case vp + "AutomaticEnv":
		x.viperOf(args[0]).AutomaticEnv()
		return nil, true
	case vp + "MergeConfig", vp + "ReadConfig":
		doc, ok := x.readerBytes(args[1])
		if !ok {
			panic(unsupported{"viper.MergeConfig from a reader that is not a *bytes.Buffer"})
		}
		var err error
		if name == vp+"MergeConfig" {
			err = x.viperOf(args[0]).MergeConfig(bytes.NewReader(doc))
		} else {
			err = x.viperOf(args[0]).ReadConfig(bytes.NewReader(doc))
		}
		if err != nil {
			return x.opaqueErr(), true
		}
		return IfaceV{}, true
	case vp + "Get":
		key := x.concStr(args[1].(StrV), 128, "viper key")
		return x.fromNative(x.viperOf(args[0]).Get(key)), true
	case vp + "IsSet":
		key := x.concStr(args[1].(StrV), 128, "viper key")
		return cbool(x.viperOf(args[0]).IsSet(key)), true
	case vp + "AllSettings":
		return x.fromNative(x.viperOf(args[0]).AllSettings()).V, true
	case vp + "Set":
		key := x.concStr(args[1].(StrV), 128, "viper key")
		nv, ok := x.toNative(args[2])
		if !ok {
			panic(unsupported{"viper.Set with a value that is not concrete scalars / maps / lists"})
		}
		x.viperOf(args[0]).Set(key, nv)
		return nil, true
	case "gopkg.in/yaml.v3.Marshal":
		// the real YAML encoder, natively, on a concrete value (nested string-keyed maps, lists, scalars)
		nv, ok := x.toNative(args[0])
		if !ok {
			panic(unsupported{"yaml.Marshal of a value that is not concrete scalars / maps / lists"})
		}
		out, err := yaml.Marshal(nv)
		if err != nil {
			return TupleV{SliceV{}, x.opaqueErr()}, true
		}
		x.stubsUsed["yaml.Marshal (the real gopkg.in/yaml.v3, natively, on concrete values)"] = true
		return TupleV{x.convert(cstr(string(out)), types.Typ[types.String], types.NewSlice(types.Typ[types.Byte])), IfaceV{}}, true
	case "os.Setenv":
		// environment stub: the harness's environment variables are set in the engine's own process
		// (harnesses only ever set fixed names to fixed values), where the native viper reads them
		k := x.concStr(args[0].(StrV), 8, "env name")
		v := x.concStr(args[1].(StrV), 8, "env value")
		os.Setenv(k, v)
		x.stubsUsed["os.Setenv (sets the engine process's own environment)"] = true
		return IfaceV{}, true
	}
	return nil, false
}

// readerBytes: the unread content of a *bytes.Buffer built by the code under test
func (x *Exec) readerBytes(v Val) ([]byte, bool) {
	iv, ok := v.(IfaceV)
	if !ok {
		return nil, false
	}
	p, ok := iv.V.(PtrV)
	if !ok || p.C == nil {
		return nil, false
	}
	if iv.T == nil || iv.T.String() != "*bytes.Buffer" {
		return nil, false
	}
	var sv StructV
	switch t := p.C.V.(type) {
	case *StructV:
		sv = *t
	case StructV:
		sv = t
	default:
		return nil, false
	}
	if len(sv.F) < 2 {
		return nil, false
	}
	sl, ok := sv.F[0].V.(SliceV)
	if !ok {
		return nil, false
	}
	off := 0
	if b, ok := sv.F[1].V.(BV); ok && b.Con {
		off = int(b.C)
	}
	if sl.A == nil {
		return nil, true
	}
	str := x.convert(sl, types.NewSlice(types.Typ[types.Byte]), types.Typ[types.String]).(StrV)
	txt := x.concStr(str, 128, "configuration document")
	if off > len(txt) {
		off = len(txt)
	}
	return []byte(txt[off:]), true
}

// fromNative: a value produced by viper (YAML scalars, nested maps and lists) as an engine interface value
func (x *Exec) fromNative(v any) IfaceV {
	switch t := v.(type) {
	case nil:
		return IfaceV{}
	case string:
		return IfaceV{T: types.Typ[types.String], V: cstr(t)}
	case bool:
		return IfaceV{T: types.Typ[types.Bool], V: cbool(t)}
	case int:
		return IfaceV{T: types.Typ[types.Int], V: cbv(64, uint64(int64(t)))}
	case int64:
		return IfaceV{T: types.Typ[types.Int64], V: cbv(64, uint64(t))}
	case uint64:
		return IfaceV{T: types.Typ[types.Uint64], V: cbv(64, t)}
	case float64:
		return IfaceV{T: types.Typ[types.Float64], V: fv(t)}
	case map[string]any:
		keys := make([]string, 0, len(t))
		for k := range t {
			keys = append(keys, k)
		}
		sort.Strings(keys)
		m := &MapV{}
		for _, k := range keys {
			m.Ent = append(m.Ent, &MapEnt{K: cstr(k), V: x.fromNative(t[k])})
		}
		return IfaceV{T: tMapStrAn, V: m}
	case map[any]any:
		conv := map[string]any{}
		for k, e := range t {
			conv[fmt.Sprint(k)] = e
		}
		return x.fromNative(conv)
	case []any:
		arr := &ArrV{E: make([]*Cell, len(t))}
		for i, e := range t {
			arr.E[i] = &Cell{V: x.fromNative(e)}
		}
		return IfaceV{T: tSliceAny, V: SliceV{A: arr, Len: len(t), Cap: len(t)}}
	}
	panic(unsupported{fmt.Sprintf("viper produced a value of type %T", v)})
}

// toNative: a concrete engine value as the Go value viper would have been given
func (x *Exec) toNative(v Val) (any, bool) {
	switch t := v.(type) {
	case IfaceV:
		if t.T == nil {
			return nil, true
		}
		switch u := t.V.(type) {
		case BV:
			if !u.Con {
				return nil, false
			}
			if _, signed, _ := bvWidth(t.T); signed {
				return int(sext(u)), true
			}
			return uint(u.C), true
		default:
			return x.toNative(u)
		}
	case StrV:
		c, ok := t.concrete()
		return c, ok
	case BoolV:
		return t.C, t.Con
	case BV:
		if !t.Con {
			return nil, false
		}
		return int(int64(t.C)), true
	case OpaqueV:
		if t.F != nil {
			return *t.F, true
		}
		return nil, false
	case *MapV:
		if t == nil {
			return map[string]any(nil), true
		}
		out := map[string]any{}
		for _, e := range t.Ent {
			k, ok := x.toNative(e.K)
			ks, isStr := k.(string)
			if !ok || !isStr {
				return nil, false
			}
			ev, ok := x.toNative(e.V)
			if !ok {
				return nil, false
			}
			out[ks] = ev
		}
		return out, true
	case SliceV:
		out := make([]any, t.Len)
		for i := 0; i < t.Len; i++ {
			ev, ok := x.toNative(t.A.E[t.Off+i].V)
			if !ok {
				return nil, false
			}
			out[i] = ev
		}
		return out, true
	}
	return nil, false
}
