package main

import (
	"bytes"
	"context"
	"encoding/json"
	"fmt"
	"os"
	"os/exec"
	"path/filepath"
	"sort"
	"strings"
	"time"

	"golang.org/x/tools/go/ssa"
)

// Native replay: the harness is compiled by the ordinary Go toolchain against
// the real build (go test -overlay, nothing is written to /repo) and fed the
// solver's model as the nd trace.

type Replayer struct {
	w    *World
	dir  string
	bins map[string]string // pkg|race -> test binary
	N    int
}

func newReplayer(w *World) *Replayer {
	d, err := os.MkdirTemp("", "verif-replay-")
	if err != nil {
		panic(err)
	}
	return &Replayer{w: w, dir: d, bins: map[string]string{}}
}

func (r *Replayer) Close() { os.RemoveAll(r.dir) }

func (r *Replayer) goEnv() []string {
	return append(os.Environ(), "GOFLAGS=-mod=mod", "GOPROXY=off", "GOSUMDB=off", "GOTOOLCHAIN=local")
}

func (r *Replayer) build(pkgPath string, race bool) (string, error) {
	key := fmt.Sprintf("%s|%v", pkgPath, race)
	if b, ok := r.bins[key]; ok {
		return b, nil
	}
	w := r.w
	sp := w.pkg(pkgPath)
	var entries []string
	for name, m := range sp.Members {
		if fn, ok := m.(*ssa.Function); ok && strings.HasPrefix(name, "Verif") && len(fn.Params) == 0 {
			entries = append(entries, name)
		}
	}
	sort.Strings(entries)
	rel := strings.TrimPrefix(strings.TrimPrefix(pkgPath, "github.com/go-kid/ioc"), "/")
	var sb strings.Builder
	sb.WriteString("//go:build verif\n\npackage " + sp.Pkg.Name() + "\n\nimport (\n\t\"os\"\n\t\"testing\"\n\n\t\"github.com/go-kid/ioc/zzverif/nd\"\n)\n\n")
	sb.WriteString("func TestVerifReplay(t *testing.T) {\n\tnd.LoadEnv()\n\tswitch os.Getenv(\"VERIF_ENTRY\") {\n")
	for _, e := range entries {
		sb.WriteString("\tcase \"" + e + "\":\n\t\t" + e + "()\n")
	}
	sb.WriteString("\tdefault:\n\t\tt.Fatal(\"unknown entry\")\n\t}\n}\n")
	n := len(r.bins)
	testFile := filepath.Join(r.dir, fmt.Sprintf("replay_%d_test.go.txt", n))
	os.WriteFile(testFile, []byte(sb.String()), 0o644)
	repl := map[string]string{filepath.Join(w.repo, rel, "zz_verif_replay_test.go"): testFile}
	i := 0
	for p, content := range w.overlay {
		f := filepath.Join(r.dir, fmt.Sprintf("ov_%d_%d.go.txt", n, i))
		i++
		os.WriteFile(f, content, 0o644)
		repl[p] = f
	}
	ovFile := filepath.Join(r.dir, fmt.Sprintf("overlay_%d.json", n))
	ob, _ := json.Marshal(map[string]any{"Replace": repl})
	os.WriteFile(ovFile, ob, 0o644)
	bin := filepath.Join(r.dir, fmt.Sprintf("replay_%d.test", n))
	args := []string{"test", "-c", "-o", bin, "-tags", "verif", "-vet=off", "-overlay", ovFile}
	if race {
		args = append(args, "-race")
	}
	args = append(args, "./"+rel)
	cmd := exec.Command("go", args...)
	cmd.Dir = w.repo
	cmd.Env = r.goEnv()
	out, err := cmd.CombinedOutput()
	if err != nil {
		return "", fmt.Errorf("go test -c failed: %v\n%s", err, out)
	}
	r.bins[key] = bin
	return bin, nil
}

func fmtTrace(tr []int64) string {
	p := make([]string, len(tr))
	for i, v := range tr {
		p[i] = fmt.Sprint(v)
	}
	return strings.Join(p, ",")
}

func fmtParams(m map[string]int) string {
	var p []string
	for k, v := range m {
		p = append(p, fmt.Sprintf("%s=%d", k, v))
	}
	sort.Strings(p)
	return strings.Join(p, ",")
}

// run executes the harness natively on a trace; returns combined output and whether the test passed.
func (r *Replayer) run(spec RunSpec, trace []int64, known map[string]bool, race bool, obsFile string, timeout time.Duration) (string, bool, error) {
	return r.runSlow(spec, trace, known, race, obsFile, timeout, false)
}

func (r *Replayer) runSlow(spec RunSpec, trace []int64, known map[string]bool, race bool, obsFile string, timeout time.Duration, slow bool) (string, bool, error) {
	bin, err := r.build(spec.Pkg, race)
	if err != nil {
		return "", false, err
	}
	r.N++
	ctx, cancel := context.WithTimeout(context.Background(), timeout+5*time.Second)
	defer cancel()
	cmd := exec.CommandContext(ctx, bin, "-test.run", "^TestVerifReplay$", "-test.timeout", timeout.String(), "-test.count=1")
	if !race {
		// a replayed non-terminating path may also grow without bound: cap the address space (not under -race: its shadow memory needs more)
		cmd = exec.CommandContext(ctx, "sh", "-c", `ulimit -v 8000000; exec "$0" "$@"`, bin, "-test.run", "^TestVerifReplay$", "-test.timeout", timeout.String(), "-test.count=1")
	}
	rel := strings.TrimPrefix(strings.TrimPrefix(spec.Pkg, "github.com/go-kid/ioc"), "/")
	cmd.Dir = filepath.Join(r.w.repo, rel)
	var ks []string
	for k := range known {
		ks = append(ks, k)
	}
	cmd.Env = append(os.Environ(), "VERIF_TRACE="+fmtTrace(trace), "VERIF_ENTRY="+spec.Entry, "VERIF_PARAMS="+fmtParams(spec.Params),
		"VERIF_KNOWN="+strings.Join(ks, ","), "VERIF_OBS="+obsFile)
	if slow {
		cmd.Env = append(cmd.Env, "VERIF_SLOW=1")
	}
	var buf bytes.Buffer
	cmd.Stdout, cmd.Stderr = &buf, &buf
	err = cmd.Run()
	return buf.String(), err == nil, nil
}

// reproduces: does the native run show the violation the engine predicted?
func (r *Replayer) reproduces(spec RunSpec, v Violation, known map[string]bool) (bool, string) {
	timeout := 20 * time.Second
	if v.Kind == "budget" || v.Kind == "deadlock" {
		timeout = 5 * time.Second
	}
	// outcomes that depend on the (randomised) native map iteration order may need several attempts
	attempts := 1
	if spec.Opts.PermuteRange || spec.Opts.Sched != "" {
		attempts = 40
	}
	var out string
	for a := 0; a < attempts; a++ {
		o, passed, err := r.runSlow(spec, v.Trace, known, v.Kind == "race", "", timeout, v.Slow)
		if err != nil {
			return false, err.Error()
		}
		out = o
		if !passed && r.matches(v, o) {
			return true, o
		}
	}
	return false, out
}

func (r *Replayer) matches(v Violation, out string) bool {
	switch v.Kind {
	case "assert":
		return strings.Contains(out, "VERIF-ASSERT-FAILED "+v.Label)
	case "panic":
		return strings.Contains(out, "panic:") && !strings.Contains(out, "VERIF-ASSERT-FAILED") && !strings.Contains(out, "VERIF-TRACE-EXHAUSTED") && !strings.Contains(out, "test timed out")
	case "budget":
		return strings.Contains(out, "test timed out") || strings.Contains(out, "stack overflow") || strings.Contains(out, "goroutine stack exceeds") ||
			strings.Contains(out, "out of memory") || strings.Contains(out, "cannot allocate memory")
	case "race":
		return strings.Contains(out, "DATA RACE")
	case "deadlock":
		return strings.Contains(out, "all goroutines are asleep") || strings.Contains(out, "test timed out")
	}
	return false
}

func (w *World) replayNative(spec RunSpec, v Violation, known map[string]bool) (bool, string) {
	r := newReplayer(w)
	defer r.Close()
	return r.reproduces(spec, v, known)
}

// validateSample replays a passing path natively and compares the observation records.
func (r *Replayer) validateSample(spec RunSpec, s PathSample, known map[string]bool, idx int) (bool, string) {
	obsFile := filepath.Join(r.dir, fmt.Sprintf("obs_%d.txt", idx))
	out, passed, err := r.run(spec, s.Trace, known, false, obsFile, 20*time.Second)
	if err != nil {
		return false, err.Error()
	}
	switch s.Outcome {
	case "ok":
		if !passed {
			return false, "engine: path ok; native: failed\n" + out
		}
	default:
		if strings.HasPrefix(s.Outcome, "end:") {
			return true, "" // path ended early in the engine (assume / exit); not compared
		}
		if passed {
			return false, "engine: " + s.Outcome + "; native: passed"
		}
		return true, ""
	}
	b, _ := os.ReadFile(obsFile)
	os.Remove(obsFile)
	got := strings.Split(strings.TrimSpace(string(b)), "\n")
	if len(got) == 1 && got[0] == "" {
		got = nil
	}
	if len(got) != len(s.obs) {
		return false, fmt.Sprintf("observation count differs: engine %v native %v", s.obs, got)
	}
	for i := range got {
		if strings.Contains(s.obs[i], "sym") {
			continue
		}
		if got[i] != s.obs[i] {
			return false, fmt.Sprintf("observation %d differs: engine %q native %q", i, s.obs[i], got[i])
		}
	}
	return true, ""
}

// validateModels runs the native model-vs-library comparison (TestVerifModels) and returns
// the number of comparisons performed.
func (r *Replayer) validateModels(thorough bool) (int, error) {
	w := r.w
	repl := map[string]string{}
	i := 0
	for p, content := range w.overlay {
		f := filepath.Join(r.dir, fmt.Sprintf("mv_%d.go.txt", i))
		i++
		os.WriteFile(f, content, 0o644)
		repl[p] = f
	}
	ovFile := filepath.Join(r.dir, "overlay_models.json")
	ob, _ := json.Marshal(map[string]any{"Replace": repl})
	os.WriteFile(ovFile, ob, 0o644)
	bin := filepath.Join(r.dir, "models.test")
	cmd := exec.Command("go", "test", "-c", "-o", bin, "-tags", "verif", "-vet=off", "-overlay", ovFile, "./zzverif/models/")
	cmd.Dir = w.repo
	cmd.Env = r.goEnv()
	if out, err := cmd.CombinedOutput(); err != nil {
		return 0, fmt.Errorf("building the models test failed: %v\n%s", err, out)
	}
	run := exec.Command(bin, "-test.run", "^TestVerifModels$", "-test.count=1")
	run.Dir = r.dir
	run.Env = os.Environ()
	if thorough {
		run.Env = append(run.Env, "VERIF_MODELS_LEN=4")
	}
	out, err := run.CombinedOutput()
	if err != nil {
		return 0, fmt.Errorf("a Go-source model disagrees with the real library:\n%s", out)
	}
	n := 0
	for _, l := range strings.Split(string(out), "\n") {
		fmt.Sscanf(l, "VERIF-MODELS-COMPARISONS %d", &n)
	}
	return n, nil
}
