package main

import (
	"encoding/json"
	"fmt"
	"os"
	"path/filepath"
	"sort"
)

// notApplicable: properties not claimed, with the reason (kept current by hand).
var notApplicable = map[string]string{}

func cmdManifest() int {
	verif := envOr("VERIF_HOME", "/verif")
	defs := checkDefs()
	var ids []string
	for id := range defs {
		ids = append(ids, id)
	}
	sort.Strings(ids)
	var checks []any
	for _, id := range ids {
		d := defs[id]
		checks = append(checks, map[string]any{
			"property_id":         id,
			"quick_cmd":           "bin/vcheck check " + id + " --tier quick",
			"thorough_cmd":        "bin/vcheck check " + id + " --tier thorough",
			"evidence_file":       "/verif/evidence/" + id + ".json",
			"replay_cmd_template": "bin/vcheck replay {path}",
			"engine":              "symgo",
			"level_claimed":       map[string]any{"category": "model_checking", "text": d.LevelText, "design_ref": d.DesignRef},
			"level_note":          d.LevelNote,
			"technique":           d.Technique,
		})
	}
	na := []any{}
	for i := 1; i <= 20; i++ {
		id := fmt.Sprintf("C%02d", i)
		if _, ok := defs[id]; ok {
			continue
		}
		reason := notApplicable[id]
		if reason == "" {
			reason = "no solver-based check registered yet for this property (harness under construction; see DESIGN.md)"
		}
		na = append(na, map[string]any{"property_id": id, "reason": reason})
	}
	m := map[string]any{
		"version":   1,
		"setup_cmd": "cd /verif/engine && GOFLAGS=-mod=mod GOPROXY=off GOSUMDB=off GOTOOLCHAIN=local go build -o /verif/bin/vcheck .",
		"hooks": map[string]any{
			"guard":            "verif",
			"enable":           "none needed: harness files carry //go:build verif and are injected into /repo's packages through a go/packages + `go test -overlay` overlay from /verif/harness; nothing is added to /repo",
			"baseline_off_cmd": "cd /repo && GOFLAGS=-mod=mod GOPROXY=off go test -vet=off -count=1 ./...",
			"source_commits":   []string{},
			"add_only":         true,
		},
		"engines": []any{map[string]any{"name": "symgo", "path": "/verif/engine", "serves_properties": ids,
			"kind_free_text": "purpose-built bounded symbolic executor for Go: go/ssa of /repo's working tree + harness overlay, path-by-path exploration, z3 decides every branch/assertion/implicit panic, counterexamples replayed natively"}},
		"checks":         checks,
		"not_applicable": na,
		"notes":          "All checks are exit 0 = held within the stated bounds, exit 1 + VIOLATION line = natively reproduced counterexample, exit 2 = inconclusive (unsupported construct, solver unknown, vacuous harness, engine/native mismatch). known_findings.json lists genuine defects kept as findings.",
	}
	b, _ := json.MarshalIndent(m, "", " ")
	if err := os.WriteFile(filepath.Join(verif, "MANIFEST.json"), append(b, '\n'), 0o644); err != nil {
		fmt.Fprintln(os.Stderr, err)
		return 2
	}
	return 0
}
