package main

import (
	"fmt"
	"github.com/spf13/viper"
	"go/constant"
	"go/token"
	"go/types"
	"sort"
	"strconv"
	"strings"
	"unicode/utf8"

	"golang.org/x/tools/go/ssa"
)

// ---------- executor (one instance per explored path) ----------

type ExecOpts struct {
	PermuteRange   bool   // map range / sync.Map.Range order is a symbolic permutation
	PermutePerCall bool   // a fresh permutation on every range (default: one permutation per map state)
	PermuteCoarse  bool   // large maps (> 4 entries): a few rotations and the reversal instead of all n! orders
	Sched          string // "" (no goroutines expected), "join", "interleave"
	MaxSwitches    int    // interleave: bound on preemptive context switches
	MaxSteps       int    // unwinding: SSA instructions per path
	MaxDepth       int    // unwinding: call depth
	Termination    bool   // exceeding the budget is a violation candidate (C02, C16), not inconclusive
	Races          bool   // happens-before race detection
	RealSyslog     bool   // execute go-kid/ioc's own syslog package from SSA (only the stdlib log.Logger leaf is a no-op)
}

type traceEnt struct {
	term string // SMT term (bitvector/bool const name) or "" for a concrete value
	conc int64
	w    int // width; 0 = Bool
}

type Violation struct {
	Kind   string // assert | panic | budget | race | deadlock
	Label  string
	Known  string // finding-class key if the path is inside a listed class
	Trace  []int64
	Where  string
	Prefix []int
	Slow   bool // the path let a timer fire while other goroutines were still busy: natively the harness's nd.Slow() points block
}

type obsEnt struct {
	label string
	vals  []Val
}

type Exec struct {
	w     *World
	sol   *Solver
	opts  ExecOpts
	par   map[string]int
	known map[string]bool

	globals  map[*ssa.Global]*Cell
	addrs    map[*Cell]uint64
	builders map[*Cell]StrV
	syncMaps map[*Cell]*MapV
	wgs      map[*Cell]*wgState
	mus      map[*Cell]*muState

	prefix    []int
	decisions []int
	newWork   [][]int
	nvars     int
	steps     int
	depth     int
	trace     []traceEnt
	covers    []string
	knownOn   []string
	obs       []obsEnt
	viol      []Violation
	assumes   int
	funcs     map[*ssa.Function]int
	q         map[string]int // query counters by kind and verdict
	stubsUsed map[string]bool
	maxLoop   int
	catching  int

	// goroutines
	gors       []*gor
	cur        *gor
	dead       bool
	fatal      interface{}
	switches   int
	raceLog    []string
	entVC      map[*MapEnt]vclock
	permCache  [][]*MapEnt
	atomVC     map[*Cell]vclock
	decided    map[string]bool
	lastIn     ssa.Instruction
	uf         map[string]BoolV
	timerFired bool
	curPanic   *panicV // the panic that is unwinding while deferred calls run
	loggers    map[string]*Cell
	onces      map[*Cell]bool
	vipers     map[*Cell]*viper.Viper
	hostDone   chan struct{}
}

type frame struct {
	fn     *ssa.Function
	regs   []Val
	idx    map[ssa.Value]int
	defers []deferred
	start  *ssa.BasicBlock // set when the frame resumes in its recover block
	result Val
}

type deferred struct {
	fv   FuncV
	args []Val
	call *ssa.CallCommon
	recv Val
	invk bool
}

func (x *Exec) global(g *ssa.Global) *Cell {
	c, ok := x.globals[g]
	if !ok {
		c = &Cell{V: x.zero(g.Type().(*types.Pointer).Elem())}
		x.globals[g] = c
	}
	return c
}

func (x *Exec) fresh(w int) BV {
	n := fmt.Sprintf("v%d", x.nvars)
	x.nvars++
	x.sol.send(fmt.Sprintf("(declare-const %s (_ BitVec %d))", n, w))
	return BV{W: w, T: n}
}

func (x *Exec) freshBool() BoolV {
	n := fmt.Sprintf("v%d", x.nvars)
	x.nvars++
	x.sol.send(fmt.Sprintf("(declare-const %s Bool)", n))
	return BoolV{T: n}
}

func (x *Exec) count(kind string, sat bool) {
	if sat {
		x.q[kind+".sat"]++
	} else {
		x.q[kind+".unsat"]++
	}
}

// choose among alternatives given as SMT constraints ("true" allowed).  Each
// feasible alternative becomes a path; feasibility is decided by the solver.
func (x *Exec) choose(alts []string, kind string) int {
	d := len(x.decisions)
	if d < len(x.prefix) {
		i := x.prefix[d]
		x.decisions = append(x.decisions, i)
		if alts[i] != "true" {
			x.sol.send("(assert " + alts[i] + ")")
		}
		return i
	}
	var feas []int
	for i, a := range alts {
		if a == "true" {
			feas = append(feas, i)
			continue
		}
		ok := x.sol.check(a)
		x.count(kind, ok)
		if ok {
			feas = append(feas, i)
		}
	}
	if len(feas) == 0 {
		panic(abortPath{"no feasible alternative"})
	}
	for _, i := range feas[1:] {
		p := append(append(make([]int, 0, len(x.decisions)+1), x.decisions...), i)
		x.newWork = append(x.newWork, p)
	}
	i := feas[0]
	x.decisions = append(x.decisions, i)
	if alts[i] != "true" {
		x.sol.send("(assert " + alts[i] + ")")
	}
	return i
}

func (x *Exec) branch(b BoolV) bool {
	if b.Con {
		return b.C
	}
	// a condition already decided on this path stays decided (the path condition only grows)
	if v, ok := x.decided[b.T]; ok {
		return v
	}
	r := x.choose([]string{b.T, "(not " + b.T + ")"}, "branch") == 0
	if x.decided == nil {
		x.decided = map[string]bool{}
	}
	x.decided[b.T] = r
	x.decided["(not "+b.T+")"] = !r
	return r
}

// concInt concretises a symbolic integer used as index/length by forking over
// every feasible value (found by the solver); more than 32 values is inconclusive.
func (x *Exec) concInt(v Val, what string) int {
	b, ok := v.(BV)
	if !ok {
		panic(unsupported{fmt.Sprintf("concInt on %T (%s)", v, what)})
	}
	if b.Con {
		return int(sext(b))
	}
	d := len(x.decisions)
	if d < len(x.prefix) {
		val := x.prefix[d]
		x.decisions = append(x.decisions, val)
		x.sol.send(fmt.Sprintf("(assert (= %s (_ bv%d %d)))", b.T, uint64(int64(val))&mask(b.W), b.W))
		return val
	}
	// enumerate feasible values
	var vals []int
	x.sol.send("(push)")
	for {
		sat, mv := x.sol.checkModel("", []string{b.T})
		x.count("concretise", sat)
		if !sat {
			break
		}
		u, ok := smtValToInt(mv[0])
		if !ok {
			x.sol.send("(pop)")
			panic(solverUnknown{"cannot parse " + mv[0]})
		}
		sv := int(sext(BV{W: b.W, Con: true, C: u & mask(b.W)}))
		vals = append(vals, sv)
		if len(vals) > 32 {
			x.sol.send("(pop)")
			panic(unsupported{"concretisation of " + what + ": more than 32 feasible values"})
		}
		x.sol.send(fmt.Sprintf("(assert (not (= %s (_ bv%d %d))))", b.T, u&mask(b.W), b.W))
	}
	x.sol.send("(pop)")
	if len(vals) == 0 {
		panic(abortPath{"infeasible"})
	}
	sort.Ints(vals)
	for _, v := range vals[1:] {
		p := append(append(make([]int, 0, len(x.decisions)+1), x.decisions...), v)
		x.newWork = append(x.newWork, p)
	}
	val := vals[0]
	x.decisions = append(x.decisions, val)
	x.sol.send(fmt.Sprintf("(assert (= %s (_ bv%d %d)))", b.T, uint64(int64(val))&mask(b.W), b.W))
	return val
}

func (x *Exec) constVal(c *ssa.Const) Val {
	t := c.Type()
	if c.Value == nil {
		return x.zero(t)
	}
	if w, _, ok := bvWidth(t); ok {
		if i, ok := constant.Int64Val(constant.ToInt(c.Value)); ok {
			return cbv(w, uint64(i))
		}
		u, _ := constant.Uint64Val(constant.ToInt(c.Value))
		return cbv(w, u)
	}
	if isString(t) {
		return cstr(constant.StringVal(c.Value))
	}
	if isBool(t) {
		return cbool(constant.BoolVal(c.Value))
	}
	if isFloat(t) {
		fv, _ := constant.Float64Val(constant.ToFloat(c.Value))
		return OpaqueV{Kind: "float", Key: "f:" + strconv.FormatFloat(fv, 'g', -1, 64), F: &fv}
	}
	panic(unsupported{"const " + c.String()})
}

func (x *Exec) get(f *frame, v ssa.Value) Val {
	switch u := v.(type) {
	case *ssa.Const:
		return x.constVal(u)
	case *ssa.Global:
		return PtrV{C: x.global(u)}
	case *ssa.Function:
		return FuncV{Fn: u}
	case *ssa.Builtin:
		return FuncV{Bi: u}
	}
	i, ok := f.idx[v]
	if !ok {
		panic(unsupported{"unknown register " + v.Name() + " in " + f.fn.String()})
	}
	return f.regs[i]
}

func (x *Exec) binop(op token.Token, a, b Val, t types.Type, pos func() string) Val {
	switch u := a.(type) {
	case StrV:
		v := b.(StrV)
		switch op {
		case token.ADD:
			return StrV{B: append(append(make([]BV, 0, len(u.B)+len(v.B)), u.B...), v.B...), Opaque: u.Opaque || v.Opaque}
		case token.EQL:
			return strEq(u, v)
		case token.NEQ:
			return notB(strEq(u, v))
		case token.LSS:
			return strLess(u, v)
		case token.GTR:
			return strLess(v, u)
		case token.LEQ:
			return notB(strLess(v, u))
		case token.GEQ:
			return notB(strLess(u, v))
		}
		panic(unsupported{"string op " + op.String()})
	case BoolV:
		v := b.(BoolV)
		switch op {
		case token.EQL:
			return x.valEq(u, v)
		case token.NEQ:
			return notB(x.valEq(u, v))
		case token.AND, token.LAND:
			return andB(u, v)
		case token.OR, token.LOR:
			return notB(andB(notB(u), notB(v)))
		}
	case BV:
		v := b.(BV)
		_, signed, _ := bvWidth(t)
		w := u.W
		switch op {
		case token.EQL:
			return x.valEq(u, v)
		case token.NEQ:
			return notB(x.valEq(u, v))
		}
		if op == token.LSS || op == token.LEQ || op == token.GTR || op == token.GEQ {
			if u.Con && v.Con {
				var r bool
				if signed {
					p, q := sext(u), sext(v)
					r = map[token.Token]bool{token.LSS: p < q, token.LEQ: p <= q, token.GTR: p > q, token.GEQ: p >= q}[op]
				} else {
					p, q := u.C, v.C
					r = map[token.Token]bool{token.LSS: p < q, token.LEQ: p <= q, token.GTR: p > q, token.GEQ: p >= q}[op]
				}
				return cbool(r)
			}
			name := map[token.Token]string{token.LSS: "lt", token.LEQ: "le", token.GTR: "gt", token.GEQ: "ge"}[op]
			pre := "bvu"
			if signed {
				pre = "bvs"
			}
			return BoolV{T: "(" + pre + name + " " + u.term() + " " + v.term() + ")"}
		}
		if op == token.QUO || op == token.REM {
			// division by zero obligation
			if x.branch(x.valEq(v, cbv(w, 0))) {
				panic(panicV{msg: "runtime error: integer divide by zero at " + pos()})
			}
			if u.Con && v.Con {
				if signed {
					p, q := sext(u), sext(v)
					if op == token.QUO {
						return cbv(w, uint64(p/q))
					}
					return cbv(w, uint64(p%q))
				}
				if op == token.QUO {
					return cbv(w, u.C/v.C)
				}
				return cbv(w, u.C%v.C)
			}
			n := map[bool]map[token.Token]string{true: {token.QUO: "bvsdiv", token.REM: "bvsrem"}, false: {token.QUO: "bvudiv", token.REM: "bvurem"}}[signed][op]
			return BV{W: w, T: "(" + n + " " + u.term() + " " + v.term() + ")"}
		}
		if u.Con && v.Con {
			switch op {
			case token.ADD:
				return cbv(w, u.C+v.C)
			case token.SUB:
				return cbv(w, u.C-v.C)
			case token.MUL:
				return cbv(w, u.C*v.C)
			case token.AND:
				return cbv(w, u.C&v.C)
			case token.OR:
				return cbv(w, u.C|v.C)
			case token.XOR:
				return cbv(w, u.C^v.C)
			case token.AND_NOT:
				return cbv(w, u.C&^v.C)
			case token.SHL:
				if v.C >= 64 {
					return cbv(w, 0)
				}
				return cbv(w, u.C<<v.C)
			case token.SHR:
				if signed {
					sh := v.C
					if sh > 63 {
						sh = 63
					}
					return cbv(w, uint64(sext(u)>>sh))
				}
				if v.C >= 64 {
					return cbv(w, 0)
				}
				return cbv(w, u.C>>v.C)
			}
		}
		name := map[token.Token]string{token.ADD: "bvadd", token.SUB: "bvsub", token.MUL: "bvmul", token.AND: "bvand", token.OR: "bvor", token.XOR: "bvxor"}[op]
		if name != "" {
			return BV{W: w, T: "(" + name + " " + u.term() + " " + v.term() + ")"}
		}
		if op == token.AND_NOT {
			return BV{W: w, T: "(bvand " + u.term() + " (bvnot " + v.term() + "))"}
		}
		if op == token.SHL || op == token.SHR {
			if !v.Con {
				panic(unsupported{"symbolic shift amount"})
			}
			n := "bvshl"
			if op == token.SHR {
				n = "bvlshr"
				if signed {
					n = "bvashr"
				}
			}
			amt := v.C
			if amt > uint64(w) {
				amt = uint64(w)
			}
			return BV{W: w, T: fmt.Sprintf("(%s %s (_ bv%d %d))", n, u.term(), amt, w)}
		}
	case OpaqueV:
		if fa, ok := concF(a); ok {
			if fb, ok := concF(b); ok {
				switch op {
				case token.ADD:
					return fv(fa + fb)
				case token.SUB:
					return fv(fa - fb)
				case token.MUL:
					return fv(fa * fb)
				case token.QUO:
					return fv(fa / fb)
				case token.LSS:
					return cbool(fa < fb)
				case token.LEQ:
					return cbool(fa <= fb)
				case token.GTR:
					return cbool(fa > fb)
				case token.GEQ:
					return cbool(fa >= fb)
				case token.EQL:
					return cbool(fa == fb)
				case token.NEQ:
					return cbool(fa != fb)
				}
			}
		}
		switch op {
		case token.EQL:
			return x.valEq(a, b)
		case token.NEQ:
			return notB(x.valEq(a, b))
		}
	case PtrV, IfaceV, SliceV, *MapV, FuncV, *StructV, *ArrV, RTypeV, *ChanV, nil:
		switch op {
		case token.EQL:
			return x.valEq(a, b)
		case token.NEQ:
			return notB(x.valEq(a, b))
		}
	}
	panic(unsupported{fmt.Sprintf("binop %s on %T", op, a)})
}

func (x *Exec) convert(v Val, from, to types.Type) Val {
	if wt, _, ok := bvWidth(to); ok {
		if wf, sf, ok := bvWidth(from); ok {
			b := v.(BV)
			if b.Con {
				if sf {
					return cbv(wt, uint64(sext(b)))
				}
				return cbv(wt, b.C)
			}
			switch {
			case wt == wf:
				return b
			case wt < wf:
				return BV{W: wt, T: fmt.Sprintf("((_ extract %d 0) %s)", wt-1, b.T)}
			case sf:
				return BV{W: wt, T: fmt.Sprintf("((_ sign_extend %d) %s)", wt-wf, b.T)}
			default:
				return BV{W: wt, T: fmt.Sprintf("((_ zero_extend %d) %s)", wt-wf, b.T)}
			}
		}
		if isFloat(from) {
			return x.opaqueToInt(v, wt)
		}
		if p, ok := v.(PtrV); ok { // unsafe.Pointer -> uintptr
			return cbv(wt, x.addrOf(p.C))
		}
	}
	if isFloat(to) {
		if _, sf, ok := bvWidth(from); ok {
			b := v.(BV)
			if b.Con {
				var fv float64
				if sf {
					fv = float64(sext(b))
				} else {
					fv = float64(b.C)
				}
				return OpaqueV{Kind: "float", Key: "f:" + strconv.FormatFloat(fv, 'g', -1, 64), F: &fv}
			}
			return OpaqueV{Kind: "float", Key: "int:" + b.T, Src: b}
		}
		if isFloat(from) {
			return v
		}
	}
	if isString(to) {
		if wf, _, ok := bvWidth(from); ok { // string(rune/byte)
			b := v.(BV)
			if b.Con {
				return cstr(string(rune(sext(b))))
			}
			if wf != 8 {
				panic(unsupported{"string(symbolic rune)"})
			}
			lt := BoolV{T: "(bvult " + b.T + " #x80)"}
			if x.branch(lt) {
				return StrV{B: []BV{b}}
			}
			hi := BV{W: 8, T: "(bvor #xc0 (bvlshr " + b.T + " #x06))"}
			lo := BV{W: 8, T: "(bvor #x80 (bvand " + b.T + " #x3f))"}
			return StrV{B: []BV{hi, lo}}
		}
		if s, ok := v.(SliceV); ok { // string([]byte)
			r := StrV{B: make([]BV, s.Len)}
			for i := 0; i < s.Len; i++ {
				r.B[i] = s.A.E[s.Off+i].V.(BV)
			}
			return r
		}
		if s, ok := v.(StrV); ok {
			return s
		}
	}
	if sl, ok := to.Underlying().(*types.Slice); ok && isString(from) { // []byte(s)
		if w, _, ok := bvWidth(sl.Elem()); ok && w == 8 {
			s := v.(StrV)
			if s.Opaque {
				panic(unsupported{"[]byte(opaque string)"})
			}
			a := &ArrV{E: make([]*Cell, len(s.B))}
			for i, b := range s.B {
				a.E[i] = &Cell{V: b}
			}
			return SliceV{A: a, Len: len(s.B), Cap: len(s.B)}
		}
	}
	if _, ok := to.Underlying().(*types.Pointer); ok { // unsafe.Pointer <-> *T
		if p, ok := v.(PtrV); ok {
			return p
		}
	}
	if b, ok := to.Underlying().(*types.Basic); ok && b.Kind() == types.UnsafePointer {
		if p, ok := v.(PtrV); ok {
			return p
		}
	}
	panic(unsupported{"convert " + from.String() + " -> " + to.String()})
}

func (x *Exec) opaqueToInt(v Val, w int) Val {
	if o, ok := v.(OpaqueV); ok && o.F != nil {
		return cbv(w, uint64(int64(*o.F)))
	}
	panic(unsupported{"float -> int conversion of a symbolic float"})
}

func (x *Exec) mapLookup(m *MapV, k Val) (*MapEnt, bool) {
	if m == nil {
		return nil, false
	}
	for _, e := range m.Ent {
		if x.branch(x.valEq(e.K, k)) {
			return e, true
		}
	}
	return nil, false
}

func (x *Exec) mapDelete(m *MapV, k Val) {
	if m == nil {
		return
	}
	for i, e := range m.Ent {
		if x.branch(x.valEq(e.K, k)) {
			m.Ent = append(append([]*MapEnt{}, m.Ent[:i]...), m.Ent[i+1:]...)
			return
		}
	}
}

// rangeOrder returns the entries of a map in iteration order: insertion order
// (canonical) or a symbolic permutation when the harness asks for it.
func (x *Exec) rangeOrder(ents []*MapEnt) []*MapEnt {
	out := append([]*MapEnt{}, ents...)
	if !x.opts.PermuteRange || len(out) < 2 {
		return out
	}
	if !x.opts.PermutePerCall {
		// reuse the permutation chosen earlier for exactly this entry set
		for _, c := range x.permCache {
			if len(c) != len(out) {
				continue
			}
			same := true
			for _, e := range out {
				found := false
				for _, f := range c {
					if f == e {
						found = true
						break
					}
				}
				if !found {
					same = false
					break
				}
			}
			if same {
				return append([]*MapEnt{}, c...)
			}
		}
	}
	if x.opts.PermuteCoarse && len(out) > 4 {
		n := len(out)
		offs := []int{0, 1, n / 2, n - 1}
		alts := make([]string, 2*len(offs))
		for k := range alts {
			alts[k] = "true"
		}
		k := x.choose(alts, "perm")
		off := offs[k%len(offs)]
		rot := append(append([]*MapEnt{}, out[off:]...), out[:off]...)
		if k >= len(offs) {
			for i, j := 0, len(rot)-1; i < j; i, j = i+1, j-1 {
				rot[i], rot[j] = rot[j], rot[i]
			}
		}
		if !x.opts.PermutePerCall {
			x.permCache = append(x.permCache, append([]*MapEnt{}, rot...))
		}
		return rot
	}
	// Lehmer-code style: pick each position by forking
	for i := 0; i < len(out)-1; i++ {
		alts := make([]string, len(out)-i)
		for k := range alts {
			alts[k] = "true"
		}
		j := i + x.choose(alts, "perm")
		out[i], out[j] = out[j], out[i]
	}
	if !x.opts.PermutePerCall {
		x.permCache = append(x.permCache, append([]*MapEnt{}, out...))
	}
	return out
}

func (x *Exec) call(fv FuncV, args []Val, site string) Val {
	if fv.Native != nil {
		return fv.Native(x, args)
	}
	if fv.Fn == nil {
		panic(panicV{msg: "call of nil func at " + x.here(site)})
	}
	fn := fv.Fn
	if _, plain := x.w.plain.Load(fn); !plain {
		name := x.w.name(fn)
		if r, ok := x.nativeRegexp(fv.Fn, args); ok {
			x.stubsUsed["regexp (the real package, natively, on concrete pattern and text)"] = true
			return r
		}
		if r, ok := x.w.redirect[name]; ok {
			if x.redirectApplies(fn, args) {
				fn = r
				x.stubsUsed["model:"+name] = true
			}
		}
		if r, ok := x.nativeStrings(fv.Fn, args); ok {
			return r
		}
		if r, ok := x.nativeMath(fv.Fn, args); ok {
			return r
		}
		if strings.HasPrefix(x.w.name(fn), ndPath+".") && fn.Name() != "init" {
			return x.intrinsic(fn, args, site)
		}
		if r, ok := x.stub(fn, args, site); ok {
			return r
		}
		if r, ok := x.reflectStub(fn, args); ok {
			return r
		}
		if fn.Blocks == nil {
			panic(unsupported{"no body: " + x.w.name(fn) + " at " + x.here(site)})
		}
		if fn.Name() == "init" && fn.Synthetic == "package initializer" && !x.w.initOK(fn.Pkg) {
			return nil
		}
		if fn == fv.Fn && (fn.Pkg == nil || (fn.Pkg.Pkg.Path() != "strings" && fn.Pkg.Pkg.Path() != "math")) {
			if _, isRedirect := x.w.redirect[name]; !isRedirect {
				x.w.plain.Store(fn, true)
			}
		}
	}
	x.depth++
	maxd := x.opts.MaxDepth
	if maxd == 0 {
		maxd = 400
	}
	if x.depth > maxd {
		panic(budgetExceeded{"call depth > " + fmt.Sprint(maxd) + " at " + x.here(site)})
	}
	x.funcs[fn]++
	idx := x.w.regIndex(fn)
	f := &frame{fn: fn, regs: make([]Val, len(idx)), idx: idx}
	for i, p := range fn.Params {
		f.regs[idx[p]] = args[i]
	}
	for i, fvv := range fn.FreeVars {
		f.regs[idx[fvv]] = fv.Bind[i]
	}
	return x.runFrame(f)
}

// runFrame executes a frame; if a Go panic unwinds through it the deferred calls are run with the
// panic pending.  A deferred call that executes recover() ends the panic: the function then returns
// through its recover block (named results) like a real Go function.
func (x *Exec) runFrame(f *frame) (res Val) {
	defer func() {
		x.depth--
		if r := recover(); r != nil {
			if pv, isGo := r.(panicV); isGo && len(f.defers) > 0 {
				saved := x.curPanic
				x.curPanic = &pv
				x.runDefers(f)
				recovered := x.curPanic == nil
				x.curPanic = saved
				if recovered {
					if f.fn.Recover != nil {
						f.start = f.fn.Recover
						x.depth++
						res = x.runFrame(f)
					} else {
						res = x.zeroResults(f.fn)
					}
					return
				}
			}
			panic(r)
		}
	}()
	return x.run(f)
}

func (x *Exec) zeroResults(fn *ssa.Function) Val {
	rs := fn.Signature.Results()
	switch rs.Len() {
	case 0:
		return nil
	case 1:
		return x.zero(rs.At(0).Type())
	}
	t := make(TupleV, rs.Len())
	for i := range t {
		t[i] = x.zero(rs.At(i).Type())
	}
	return t
}

func (x *Exec) runDefers(f *frame) {
	for len(f.defers) > 0 {
		d := f.defers[len(f.defers)-1]
		f.defers = f.defers[:len(f.defers)-1]
		x.call(d.fv, d.args, "defer")
	}
}

func (x *Exec) methodFor(t types.Type, m *types.Func) *ssa.Function {
	ms := x.w.prog.MethodSets.MethodSet(t)
	sel := ms.Lookup(m.Pkg(), m.Name())
	if sel == nil {
		panic(unsupported{"method " + m.Name() + " not in method set of " + t.String()})
	}
	fn := x.w.prog.MethodValue(sel)
	if fn == nil {
		panic(unsupported{"abstract method " + m.Name() + " of " + t.String()})
	}
	return fn
}

func (x *Exec) here(site string) string {
	if site != "" {
		return site
	}
	if x.lastIn != nil {
		return x.pos(x.lastIn)
	}
	return "?"
}

func (x *Exec) pos(in ssa.Instruction) string {
	p := x.w.prog.Fset.Position(in.Pos())
	if !p.IsValid() {
		return in.Parent().String()
	}
	return fmt.Sprintf("%s:%d", p.Filename, p.Line)
}

func (x *Exec) loadCell(c *Cell, where func() string) Val {
	if x.opts.Races && len(x.gors) > 1 {
		x.raceRead(c, where)
	}
	return c.V
}

func (x *Exec) storeCell(c *Cell, v Val, where func() string) {
	if x.opts.Races && len(x.gors) > 1 {
		x.raceWrite(c, where)
	}
	assign(c, v)
}

func (x *Exec) run(f *frame) Val {
	blk := f.fn.Blocks[0]
	if f.start != nil {
		blk = f.start
	}
	var prev *ssa.BasicBlock
	maxSteps := x.opts.MaxSteps
	if maxSteps == 0 {
		maxSteps = 3000000
	}
	for {
		var next *ssa.BasicBlock
		// phis read their operands simultaneously
		nphi := 0
		for _, ins := range blk.Instrs {
			if _, ok := ins.(*ssa.Phi); ok {
				nphi++
			} else {
				break
			}
		}
		if nphi > 0 {
			idx := -1
			for i, p := range blk.Preds {
				if p == prev {
					idx = i
					break
				}
			}
			vals := make([]Val, nphi)
			for i := 0; i < nphi; i++ {
				vals[i] = x.get(f, blk.Instrs[i].(*ssa.Phi).Edges[idx])
			}
			for i := 0; i < nphi; i++ {
				f.regs[f.idx[blk.Instrs[i].(*ssa.Phi)]] = vals[i]
			}
		}
		for _, ins := range blk.Instrs[nphi:] {
			x.steps++
			x.lastIn = ins
			if x.steps > maxSteps {
				panic(budgetExceeded{fmt.Sprintf("more than %d SSA steps", maxSteps)})
			}
			switch in := ins.(type) {
			case *ssa.Alloc:
				f.regs[f.idx[in]] = PtrV{C: &Cell{V: x.zero(in.Type().(*types.Pointer).Elem())}}
			case *ssa.UnOp:
				v := x.get(f, in.X)
				switch in.Op {
				case token.MUL:
					p := v.(PtrV)
					if p.C == nil {
						panic(panicV{msg: "runtime error: invalid memory address or nil pointer dereference at " + x.pos(in)})
					}
					f.regs[f.idx[in]] = copyVal(x.loadCell(p.C, func() string { return x.pos(in) }))
				case token.NOT:
					f.regs[f.idx[in]] = notB(v.(BoolV))
				case token.SUB:
					if fl, ok := concF(v); ok {
						f.regs[f.idx[in]] = fv(-fl)
						break
					}
					b := v.(BV)
					f.regs[f.idx[in]] = x.binop(token.SUB, cbv(b.W, 0), b, in.Type(), nil)
				case token.ARROW:
					f.regs[f.idx[in]] = x.chanRecv(v.(*ChanV), in.CommaOk, in.Type(), x.pos(in))
				case token.XOR:
					b := v.(BV)
					if b.Con {
						f.regs[f.idx[in]] = cbv(b.W, ^b.C)
					} else {
						f.regs[f.idx[in]] = BV{W: b.W, T: "(bvnot " + b.T + ")"}
					}
				default:
					panic(unsupported{"unop " + in.Op.String()})
				}
			case *ssa.BinOp:
				f.regs[f.idx[in]] = x.binop(in.Op, x.get(f, in.X), x.get(f, in.Y), in.X.Type(), func() string { return x.pos(in) })
			case *ssa.Store:
				p := x.get(f, in.Addr).(PtrV)
				if p.C == nil {
					panic(panicV{msg: "runtime error: invalid memory address or nil pointer dereference (store) at " + x.pos(in)})
				}
				x.storeCell(p.C, x.get(f, in.Val), func() string { return x.pos(in) })
			case *ssa.FieldAddr:
				p := x.get(f, in.X).(PtrV)
				if p.C == nil {
					panic(panicV{msg: "runtime error: invalid memory address or nil pointer dereference (field) at " + x.pos(in)})
				}
				sv, ok := p.C.V.(*StructV)
				if !ok {
					panic(unsupported{fmt.Sprintf("fieldaddr on %T at %s", p.C.V, x.pos(in))})
				}
				f.regs[f.idx[in]] = PtrV{C: sv.F[in.Field]}
			case *ssa.Field:
				f.regs[f.idx[in]] = copyVal(x.get(f, in.X).(*StructV).F[in.Field].V)
			case *ssa.IndexAddr:
				i := x.concInt(x.get(f, in.Index), "index")
				switch b := x.get(f, in.X).(type) {
				case SliceV:
					if i < 0 || i >= b.Len {
						panic(panicV{msg: fmt.Sprintf("runtime error: index out of range [%d] with length %d at %s", i, b.Len, x.pos(in))})
					}
					f.regs[f.idx[in]] = PtrV{C: b.A.E[b.Off+i]}
				case PtrV:
					if b.C == nil {
						panic(panicV{msg: "nil array pointer at " + x.pos(in)})
					}
					a := b.C.V.(*ArrV)
					if i < 0 || i >= len(a.E) {
						panic(panicV{msg: "runtime error: array index out of range at " + x.pos(in)})
					}
					f.regs[f.idx[in]] = PtrV{C: a.E[i]}
				default:
					panic(unsupported{"indexaddr base"})
				}
			case *ssa.Index:
				i := x.concInt(x.get(f, in.Index), "index")
				switch b := x.get(f, in.X).(type) {
				case StrV:
					if b.Opaque {
						panic(unsupported{"index into opaque string"})
					}
					if i < 0 || i >= len(b.B) {
						panic(panicV{msg: fmt.Sprintf("runtime error: index out of range [%d] with length %d at %s", i, len(b.B), x.pos(in))})
					}
					f.regs[f.idx[in]] = b.B[i]
				case *ArrV:
					if i < 0 || i >= len(b.E) {
						panic(panicV{msg: "runtime error: array index out of range at " + x.pos(in)})
					}
					f.regs[f.idx[in]] = copyVal(b.E[i].V)
				default:
					panic(unsupported{"index base"})
				}
			case *ssa.Lookup:
				switch b := x.get(f, in.X).(type) {
				case StrV:
					i := x.concInt(x.get(f, in.Index), "string index")
					if i < 0 || i >= len(b.B) {
						panic(panicV{msg: fmt.Sprintf("runtime error: index out of range [%d] with length %d at %s", i, len(b.B), x.pos(in))})
					}
					f.regs[f.idx[in]] = b.B[i]
				case *MapV:
					x.mapRace(b, false, in)
					e, ok := x.mapLookup(b, x.get(f, in.Index))
					var v Val
					if ok {
						v = copyVal(e.V)
					} else {
						v = x.zero(in.X.Type().Underlying().(*types.Map).Elem())
					}
					if in.CommaOk {
						f.regs[f.idx[in]] = TupleV{v, cbool(ok)}
					} else {
						f.regs[f.idx[in]] = v
					}
				default:
					panic(unsupported{"lookup base"})
				}
			case *ssa.MapUpdate:
				m := x.get(f, in.Map).(*MapV)
				if m == nil {
					panic(panicV{msg: "assignment to entry in nil map at " + x.pos(in)})
				}
				k := x.get(f, in.Key)
				x.mapRace(m, true, in)
				if e, ok := x.mapLookup(m, k); ok {
					e.V = copyVal(x.get(f, in.Value))
				} else {
					m.Ent = append(m.Ent, &MapEnt{K: k, V: copyVal(x.get(f, in.Value))})
				}
			case *ssa.MakeMap:
				f.regs[f.idx[in]] = &MapV{}
			case *ssa.MakeChan:
				f.regs[f.idx[in]] = &ChanV{cap: x.concInt(x.get(f, in.Size), "chan size"), cvc: vclock{}}
			case *ssa.Send:
				x.chanSend(x.get(f, in.Chan).(*ChanV), x.get(f, in.X), x.pos(in))
			case *ssa.Select:
				f.regs[f.idx[in]] = x.selectStmt(f, in)
			case *ssa.MakeSlice:
				n := x.concInt(x.get(f, in.Len), "make len")
				c := x.concInt(x.get(f, in.Cap), "make cap")
				if n < 0 || c < n {
					panic(panicV{msg: "runtime error: makeslice: len out of range at " + x.pos(in)})
				}
				if c > 1<<16 {
					panic(unsupported{"huge make"})
				}
				et := in.Type().Underlying().(*types.Slice).Elem()
				a := &ArrV{E: make([]*Cell, c)}
				for i := range a.E {
					a.E[i] = &Cell{V: x.zero(et)}
				}
				f.regs[f.idx[in]] = SliceV{A: a, Len: n, Cap: c}
			case *ssa.Slice:
				lo, hi, mx := 0, -1, -1
				if in.Low != nil {
					lo = x.concInt(x.get(f, in.Low), "slice low")
				}
				if in.High != nil {
					hi = x.concInt(x.get(f, in.High), "slice high")
					if hi < 0 {
						panic(panicV{msg: fmt.Sprintf("runtime error: slice bounds out of range [:%d] at %s", hi, x.pos(in))})
					}
				}
				if in.Max != nil {
					mx = x.concInt(x.get(f, in.Max), "slice max")
				}
				switch b := x.get(f, in.X).(type) {
				case StrV:
					if b.Opaque {
						panic(unsupported{"slice of opaque string"})
					}
					if hi < 0 {
						hi = len(b.B)
					}
					if lo < 0 || lo > hi || hi > len(b.B) {
						panic(panicV{msg: fmt.Sprintf("runtime error: slice bounds out of range [%d:%d] with length %d at %s", lo, hi, len(b.B), x.pos(in))})
					}
					f.regs[f.idx[in]] = StrV{B: b.B[lo:hi]}
				case SliceV:
					if hi < 0 {
						hi = b.Len
					}
					if mx < 0 {
						mx = b.Cap
					}
					if lo < 0 || lo > hi || hi > mx || mx > b.Cap {
						panic(panicV{msg: fmt.Sprintf("runtime error: slice bounds out of range [%d:%d:%d] with capacity %d at %s", lo, hi, mx, b.Cap, x.pos(in))})
					}
					if b.A == nil {
						f.regs[f.idx[in]] = SliceV{}
					} else {
						f.regs[f.idx[in]] = SliceV{A: b.A, Off: b.Off + lo, Len: hi - lo, Cap: mx - lo}
					}
				case PtrV:
					a := b.C.V.(*ArrV)
					if hi < 0 {
						hi = len(a.E)
					}
					if mx < 0 {
						mx = len(a.E)
					}
					if lo < 0 || lo > hi || hi > mx || mx > len(a.E) {
						panic(panicV{msg: "runtime error: slice bounds out of range at " + x.pos(in)})
					}
					f.regs[f.idx[in]] = SliceV{A: a, Off: lo, Len: hi - lo, Cap: mx - lo}
				default:
					panic(unsupported{"slice base"})
				}
			case *ssa.Range:
				switch b := x.get(f, in.X).(type) {
				case *MapV:
					it := &mapIter{}
					if b != nil {
						// ranging over a map reads it (the runtime's concurrent-iteration check treats it so, too)
						x.mapRace(b, false, in)
						it.ents = x.rangeOrder(b.Ent)
					}
					f.regs[f.idx[in]] = it
				case StrV:
					if _, ok := b.concrete(); !ok {
						// symbolic bytes: only ASCII-free decoding is not modelled
						panic(unsupported{"range over symbolic string at " + x.pos(in)})
					}
					bb := b
					f.regs[f.idx[in]] = &mapIter{str: &bb}
				default:
					panic(unsupported{"range over non-map"})
				}
			case *ssa.Next:
				it := x.get(f, in.Iter).(*mapIter)
				tt := in.Type().(*types.Tuple)
				if it.str != nil {
					s, _ := it.str.concrete()
					if it.i >= len(s) {
						f.regs[f.idx[in]] = TupleV{cbool(false), cbv(64, 0), cbv(32, 0)}
					} else {
						r, size := utf8.DecodeRuneInString(s[it.i:])
						f.regs[f.idx[in]] = TupleV{cbool(true), cbv(64, uint64(it.i)), cbv(32, uint64(r))}
						it.i += size
					}
					break
				}
				if it.i >= len(it.ents) {
					f.regs[f.idx[in]] = TupleV{cbool(false), x.zeroOrNil(tt.At(1).Type()), x.zeroOrNil(tt.At(2).Type())}
				} else {
					e := it.ents[it.i]
					it.i++
					f.regs[f.idx[in]] = TupleV{cbool(true), e.K, copyVal(e.V)}
				}
			case *ssa.ChangeType:
				f.regs[f.idx[in]] = x.get(f, in.X)
			case *ssa.ChangeInterface:
				f.regs[f.idx[in]] = x.get(f, in.X)
			case *ssa.Convert:
				f.regs[f.idx[in]] = x.convert(x.get(f, in.X), in.X.Type(), in.Type())
			case *ssa.MakeInterface:
				f.regs[f.idx[in]] = IfaceV{T: in.X.Type(), V: copyVal(x.get(f, in.X))}
			case *ssa.MakeClosure:
				b := make([]Val, len(in.Bindings))
				for i, v := range in.Bindings {
					b[i] = x.get(f, v)
				}
				f.regs[f.idx[in]] = FuncV{Fn: in.Fn.(*ssa.Function), Bind: b}
			case *ssa.Extract:
				f.regs[f.idx[in]] = x.get(f, in.Tuple).(TupleV)[in.Index]
			case *ssa.TypeAssert:
				f.regs[f.idx[in]] = x.typeAssert(in, x.get(f, in.X))
			case *ssa.Call:
				f.regs[f.idx[in]] = x.doCall(f, &in.Call, "")
			case *ssa.Defer:
				fv, args := x.resolveCall(f, &in.Call, "")
				f.defers = append(f.defers, deferred{fv: fv, args: args})
			case *ssa.Go:
				fv, args := x.resolveCall(f, &in.Call, x.pos(in))
				x.spawn(fv, args, x.pos(in))
			case *ssa.RunDefers:
				x.runDefers(f)
			case *ssa.If:
				if x.branch(x.get(f, in.Cond).(BoolV)) {
					next = blk.Succs[0]
				} else {
					next = blk.Succs[1]
				}
			case *ssa.Jump:
				next = blk.Succs[0]
			case *ssa.Return:
				switch len(in.Results) {
				case 0:
					return nil
				case 1:
					return x.get(f, in.Results[0])
				}
				t := make(TupleV, len(in.Results))
				for i, r := range in.Results {
					t[i] = x.get(f, r)
				}
				return t
			case *ssa.Panic:
				v := x.get(f, in.X)
				msg := "explicit panic"
				if iv, ok := v.(IfaceV); ok {
					if s, ok := iv.V.(StrV); ok {
						if c, ok := s.concrete(); ok {
							msg += ": " + c
						}
					}
				}
				panic(panicV{msg: msg + " at " + x.pos(in), val: v})
			case *ssa.DebugRef:
			default:
				panic(unsupported{fmt.Sprintf("instr %T at %s", ins, x.pos(ins))})
			}
		}
		if next == nil {
			panic(unsupported{"fell off block in " + f.fn.String()})
		}
		prev, blk = blk, next
	}
}

func (x *Exec) typeAssert(in *ssa.TypeAssert, v Val) Val {
	iv := v.(IfaceV)
	ok := false
	var res Val
	if iv.T != nil {
		if it, isI := in.AssertedType.Underlying().(*types.Interface); isI {
			ok = types.Implements(iv.T, it)
			res = iv
		} else {
			ok = types.Identical(iv.T, in.AssertedType)
			res = iv.V
		}
	}
	if in.CommaOk {
		if !ok {
			res = x.zero(in.AssertedType)
		}
		return TupleV{res, cbool(ok)}
	}
	if !ok {
		have := "nil"
		if iv.T != nil {
			have = iv.T.String()
		}
		panic(panicV{msg: "interface conversion: interface is " + have + ", not " + in.AssertedType.String() + " at " + x.pos(in)})
	}
	return res
}

func (x *Exec) resolveCall(f *frame, c *ssa.CallCommon, site string) (FuncV, []Val) {
	args := make([]Val, 0, len(c.Args)+1)
	if c.IsInvoke() {
		iv := x.get(f, c.Value).(IfaceV)
		if iv.T == nil {
			panic(panicV{msg: "runtime error: invalid memory address or nil pointer dereference (method call on nil interface) at " + x.here(site)})
		}
		if rv, ok := iv.V.(RTypeV); ok { // reflect.Type methods
			_ = rv
		}
		fn := x.methodFor(iv.T, c.Method)
		args = append(args, iv.V)
		for _, a := range c.Args {
			args = append(args, x.get(f, a))
		}
		return FuncV{Fn: fn}, args
	}
	for _, a := range c.Args {
		args = append(args, x.get(f, a))
	}
	fv := x.get(f, c.Value).(FuncV)
	return fv, args
}

func (x *Exec) doCall(f *frame, c *ssa.CallCommon, site string) Val {
	fv, args := x.resolveCall(f, c, site)
	if fv.Bi != nil {
		return x.builtin(fv.Bi.Name(), args, c, site)
	}
	return x.call(fv, args, site)
}

func (x *Exec) builtin(name string, args []Val, c *ssa.CallCommon, site string) Val {
	switch name {
	case "len":
		switch u := args[0].(type) {
		case StrV:
			if u.Opaque {
				panic(unsupported{"len of opaque string"})
			}
			return cbv(64, uint64(len(u.B)))
		case SliceV:
			return cbv(64, uint64(u.Len))
		case *MapV:
			if u == nil {
				return cbv(64, 0)
			}
			return cbv(64, uint64(len(u.Ent)))
		case *ArrV:
			return cbv(64, uint64(len(u.E)))
		case *ChanV:
			if u == nil {
				return cbv(64, 0)
			}
			return cbv(64, uint64(len(u.buf)))
		}
	case "cap":
		if c, ok := args[0].(*ChanV); ok {
			if c == nil {
				return cbv(64, 0)
			}
			return cbv(64, uint64(c.cap))
		}
		return cbv(64, uint64(args[0].(SliceV).Cap))
	case "close":
		x.chanClose(args[0].(*ChanV), site)
		return nil
	case "append":
		s := args[0].(SliceV)
		var add []Val
		switch t := args[1].(type) {
		case SliceV:
			for i := 0; i < t.Len; i++ {
				add = append(add, copyVal(t.A.E[t.Off+i].V))
			}
		case StrV:
			for _, b := range t.B {
				add = append(add, b)
			}
		}
		if len(add) == 0 {
			return s
		}
		need := s.Len + len(add)
		if s.A != nil && need <= s.Cap {
			for i, v := range add {
				assign(s.A.E[s.Off+s.Len+i], v)
			}
			return SliceV{A: s.A, Off: s.Off, Len: need, Cap: s.Cap}
		}
		nc := s.Cap * 2
		if nc < need {
			nc = need
		}
		et := c.Args[0].Type().Underlying().(*types.Slice).Elem()
		a := &ArrV{E: make([]*Cell, nc)}
		for i := 0; i < nc; i++ {
			switch {
			case i < s.Len:
				a.E[i] = &Cell{V: copyVal(s.A.E[s.Off+i].V)}
			case i < need:
				a.E[i] = &Cell{V: add[i-s.Len]}
			default:
				a.E[i] = &Cell{V: x.zero(et)}
			}
		}
		return SliceV{A: a, Len: need, Cap: nc}
	case "copy":
		d := args[0].(SliceV)
		n := 0
		switch s := args[1].(type) {
		case SliceV:
			n = d.Len
			if s.Len < n {
				n = s.Len
			}
			tmp := make([]Val, n)
			for i := 0; i < n; i++ {
				tmp[i] = copyVal(s.A.E[s.Off+i].V)
			}
			for i := 0; i < n; i++ {
				assign(d.A.E[d.Off+i], tmp[i])
			}
		case StrV:
			n = d.Len
			if len(s.B) < n {
				n = len(s.B)
			}
			for i := 0; i < n; i++ {
				d.A.E[d.Off+i].V = s.B[i]
			}
		}
		return cbv(64, uint64(n))
	case "delete":
		x.mapDelete(args[0].(*MapV), args[1])
		return nil
	case "panic":
		panic(panicV{msg: "panic() at " + x.here(site), val: args[0]})
	case "recover":
		if x.curPanic != nil {
			p := x.curPanic
			x.curPanic = nil
			if iv, ok := p.val.(IfaceV); ok && iv.T != nil {
				return iv
			}
			return IfaceV{T: types.Typ[types.String], V: cstr(p.msg)}
		}
		return IfaceV{}
	case "print", "println":
		return nil
	case "min", "max":
		a, b := args[0].(BV), args[1].(BV)
		if a.Con && b.Con {
			_, signed, _ := bvWidth(c.Args[0].Type())
			var less bool
			if signed {
				less = sext(a) < sext(b)
			} else {
				less = a.C < b.C
			}
			if (name == "min") == less {
				return a
			}
			return b
		}
	}
	if name == "ssa:wrapnilchk" {
		// wrapper of a value-receiver method called through a pointer: a nil pointer panics
		if p, ok := args[0].(PtrV); ok && p.C == nil {
			panic(panicV{msg: "value method called using nil pointer at " + x.here(site)})
		}
		return args[0]
	}
	panic(unsupported{"builtin " + name + " at " + x.here(site)})
}

// run package initialiser; calls to init of packages outside the whitelist are skipped in call()
func (x *Exec) initPkg(p *ssa.Package) {
	x.call(FuncV{Fn: p.Func("init")}, nil, "init")
}

// isZeroSize: a value that occupies no memory (struct{} and friends)
func isZeroSize(v Val) bool {
	switch u := v.(type) {
	case *StructV:
		for _, f := range u.F {
			if !isZeroSize(f.V) {
				return false
			}
		}
		return true
	case *ArrV:
		for _, e := range u.E {
			if !isZeroSize(e.V) {
				return false
			}
		}
		return true
	}
	return false
}

// addrOf gives every memory location a concrete fake address that respects the two
// identities real Go programs can observe: a struct (array) starts at the address of its
// first field (element), and all zero-sized objects share one address (the gc runtime's
// zerobase; the spec allows it, so it is the adversarial choice).
func (x *Exec) addrOf(c *Cell) uint64 {
	if c == nil {
		return 0
	}
	if isZeroSize(c.V) {
		return 0xC000
	}
	for {
		var first *Cell
		switch u := c.V.(type) {
		case *StructV:
			if len(u.F) > 0 {
				first = u.F[0]
			}
		case *ArrV:
			if len(u.E) > 0 {
				first = u.E[0]
			}
		}
		if first == nil || isZeroSize(first.V) {
			break
		}
		c = first
	}
	a, ok := x.addrs[c]
	if !ok {
		a = uint64(len(x.addrs)+1) << 20
		x.addrs[c] = a
	}
	return a
}

// mapRace records an access to a plain Go map as a whole (the Go race detector and the runtime's
// "concurrent map read and map write" check both treat the map as one object).
func (x *Exec) mapRace(m *MapV, write bool, in ssa.Instruction) {
	if m == nil || !x.opts.Races || len(x.gors) < 2 {
		return
	}
	if m.race == nil {
		m.race = &Cell{}
	}
	where := func() string { return "map at " + x.pos(in) }
	if write {
		x.raceWrite(m.race, where)
	} else {
		x.raceRead(m.race, where)
	}
}
