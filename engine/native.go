package main

import (
	"math"
	"regexp"
	"strconv"
	"strings"
	"sync"

	"golang.org/x/tools/go/ssa"
)

// Pure stdlib string functions on fully concrete arguments are computed by the
// host Go runtime (their SSA bottoms out in assembly).

func concStr(v Val) (string, bool) {
	s, ok := v.(StrV)
	if !ok {
		return "", false
	}
	return s.concrete()
}
func concI(v Val) (int, bool) {
	b, ok := v.(BV)
	if !ok || !b.Con {
		return 0, false
	}
	return int(sext(b)), true
}
func concStrs(v Val) ([]string, bool) {
	sl, ok := v.(SliceV)
	if !ok {
		return nil, false
	}
	out := make([]string, sl.Len)
	for i := range out {
		s, ok := concStr(sl.A.E[sl.Off+i].V)
		if !ok {
			return nil, false
		}
		out[i] = s
	}
	return out, true
}
func strSlice(ss []string) Val {
	if ss == nil {
		return SliceV{}
	}
	a := &ArrV{E: make([]*Cell, len(ss))}
	for i, s := range ss {
		a.E[i] = &Cell{V: cstr(s)}
	}
	return SliceV{A: a, Len: len(ss), Cap: len(ss)}
}
func ci(i int) Val { return cbv(64, uint64(int64(i))) }

func (x *Exec) nativeStrings(fn *ssa.Function, args []Val) (Val, bool) {
	if fn.Pkg == nil || fn.Pkg.Pkg.Path() != "strings" || fn.Signature.Recv() != nil {
		return nil, false
	}
	s := make([]string, len(args))
	n := make([]int, len(args))
	isS := make([]bool, len(args))
	isN := make([]bool, len(args))
	for i, a := range args {
		s[i], isS[i] = concStr(a)
		n[i], isN[i] = concI(a)
	}
	ss2 := func(k int) bool {
		for i := 0; i < k; i++ {
			if !isS[i] {
				return false
			}
		}
		return len(args) >= k
	}
	switch fn.Name() {
	case "Index":
		if ss2(2) {
			return ci(strings.Index(s[0], s[1])), true
		}
	case "LastIndex":
		if ss2(2) {
			return ci(strings.LastIndex(s[0], s[1])), true
		}
	case "IndexByte":
		if isS[0] && isN[1] {
			return ci(strings.IndexByte(s[0], byte(n[1]))), true
		}
	case "Count":
		if ss2(2) {
			return ci(strings.Count(s[0], s[1])), true
		}
	case "Contains":
		if ss2(2) {
			return cbool(strings.Contains(s[0], s[1])), true
		}
	case "HasPrefix":
		if ss2(2) {
			return cbool(strings.HasPrefix(s[0], s[1])), true
		}
	case "HasSuffix":
		if ss2(2) {
			return cbool(strings.HasSuffix(s[0], s[1])), true
		}
	case "EqualFold":
		if ss2(2) {
			return cbool(strings.EqualFold(s[0], s[1])), true
		}
	case "TrimPrefix":
		if ss2(2) {
			return cstr(strings.TrimPrefix(s[0], s[1])), true
		}
	case "TrimSuffix":
		if ss2(2) {
			return cstr(strings.TrimSuffix(s[0], s[1])), true
		}
	case "Trim":
		if ss2(2) {
			return cstr(strings.Trim(s[0], s[1])), true
		}
	case "TrimLeft":
		if ss2(2) {
			return cstr(strings.TrimLeft(s[0], s[1])), true
		}
	case "TrimRight":
		if ss2(2) {
			return cstr(strings.TrimRight(s[0], s[1])), true
		}
	case "TrimSpace":
		if ss2(1) {
			return cstr(strings.TrimSpace(s[0])), true
		}
	case "ToUpper":
		if ss2(1) {
			return cstr(strings.ToUpper(s[0])), true
		}
	case "ToLower":
		if ss2(1) {
			return cstr(strings.ToLower(s[0])), true
		}
	case "Repeat":
		if isS[0] && isN[1] && n[1] >= 0 && n[1] < 1000 {
			return cstr(strings.Repeat(s[0], n[1])), true
		}
	case "Replace":
		if ss2(3) && isN[3] {
			return cstr(strings.Replace(s[0], s[1], s[2], n[3])), true
		}
	case "ReplaceAll":
		if ss2(3) {
			return cstr(strings.ReplaceAll(s[0], s[1], s[2])), true
		}
	case "Split":
		if ss2(2) {
			return strSlice(strings.Split(s[0], s[1])), true
		}
	case "SplitN":
		if ss2(2) && isN[2] {
			return strSlice(strings.SplitN(s[0], s[1], n[2])), true
		}
	case "Fields":
		if ss2(1) {
			return strSlice(strings.Fields(s[0])), true
		}
	case "Join":
		if l, ok := concStrs(args[0]); ok && isS[1] {
			return cstr(strings.Join(l, s[1])), true
		}
	}
	return nil, false
}

func fv(f float64) Val {
	return OpaqueV{Kind: "float", Key: "f:" + strconv.FormatFloat(f, 'g', -1, 64), F: &f}
}

func concF(v Val) (float64, bool) {
	o, ok := v.(OpaqueV)
	if !ok || o.F == nil {
		return 0, false
	}
	return *o.F, true
}

// nativeMath: package math on concrete floats (its SSA bottoms out in assembly)
func (x *Exec) nativeMath(fn *ssa.Function, args []Val) (Val, bool) {
	if fn.Pkg == nil || fn.Pkg.Pkg.Path() != "math" || fn.Signature.Recv() != nil {
		return nil, false
	}
	f := make([]float64, len(args))
	allF := true
	for i, a := range args {
		var ok bool
		f[i], ok = concF(a)
		if !ok {
			allF = false
		}
	}
	switch fn.Name() {
	case "Inf":
		if n, ok := concI(args[0]); ok {
			return fv(math.Inf(n)), true
		}
	case "NaN":
		return fv(math.NaN()), true
	case "IsInf":
		if v, ok := concF(args[0]); ok {
			if n, ok := concI(args[1]); ok {
				return cbool(math.IsInf(v, n)), true
			}
		}
	}
	if !allF || len(args) == 0 {
		return nil, false
	}
	switch fn.Name() {
	case "Trunc":
		return fv(math.Trunc(f[0])), true
	case "Floor":
		return fv(math.Floor(f[0])), true
	case "Ceil":
		return fv(math.Ceil(f[0])), true
	case "Round":
		return fv(math.Round(f[0])), true
	case "Abs":
		return fv(math.Abs(f[0])), true
	case "Sqrt":
		return fv(math.Sqrt(f[0])), true
	case "IsNaN":
		return cbool(math.IsNaN(f[0])), true
	case "Mod":
		return fv(math.Mod(f[0], f[1])), true
	case "Pow":
		return fv(math.Pow(f[0], f[1])), true
	case "Max":
		return fv(math.Max(f[0], f[1])), true
	case "Min":
		return fv(math.Min(f[0], f[1])), true
	case "Float64bits":
		return cbv(64, math.Float64bits(f[0])), true
	case "Modf":
		a, b := math.Modf(f[0])
		return TupleV{fv(a), fv(b)}, true
	}
	return nil, false
}

// ---- regexp on concrete operands: the real regexp package (any pattern), like strings.* on concrete arguments

var nativeRegexps sync.Map // pattern text -> *regexp.Regexp

func intSlice(v []int) Val {
	if v == nil {
		return SliceV{}
	}
	arr := &ArrV{E: make([]*Cell, len(v))}
	for i, e := range v {
		arr.E[i] = &Cell{V: cbv(64, uint64(int64(e)))}
	}
	return SliceV{A: arr, Len: len(v), Cap: len(v)}
}

func (x *Exec) nativeRegexp(fn *ssa.Function, args []Val) (Val, bool) {
	name := x.w.name(fn)
	if !strings.HasPrefix(name, "(*regexp.Regexp).") || len(args) < 2 {
		return nil, false
	}
	p, ok := args[0].(PtrV)
	if !ok || p.C == nil {
		return nil, false
	}
	pv, ok := p.C.V.(StrV)
	if !ok {
		return nil, false
	}
	pat, ok := pv.concrete()
	if !ok {
		return nil, false
	}
	sv, ok := args[1].(StrV)
	if !ok {
		return nil, false
	}
	src, ok := sv.concrete()
	if !ok {
		return nil, false
	}
	var re *regexp.Regexp
	if c, ok := nativeRegexps.Load(pat); ok {
		re = c.(*regexp.Regexp)
	} else {
		r, err := regexp.Compile(pat)
		if err != nil {
			return nil, false
		}
		nativeRegexps.Store(pat, r)
		re = r
	}
	n := func(i int) (int, bool) {
		b, ok := args[i].(BV)
		if !ok || !b.Con {
			return 0, false
		}
		return int(sext(BV{W: 64, Con: true, C: b.C})), true
	}
	switch fn.Name() {
	case "MatchString":
		return cbool(re.MatchString(src)), true
	case "FindString":
		return cstr(re.FindString(src)), true
	case "FindStringIndex":
		return intSlice(re.FindStringIndex(src)), true
	case "FindAllString":
		k, ok := n(2)
		if !ok {
			return nil, false
		}
		res := re.FindAllString(src, k)
		if res == nil {
			return SliceV{}, true
		}
		arr := &ArrV{E: make([]*Cell, len(res))}
		for i, e := range res {
			arr.E[i] = &Cell{V: cstr(e)}
		}
		return SliceV{A: arr, Len: len(res), Cap: len(res)}, true
	case "FindAllStringIndex":
		k, ok := n(2)
		if !ok {
			return nil, false
		}
		res := re.FindAllStringIndex(src, k)
		if res == nil {
			return SliceV{}, true
		}
		arr := &ArrV{E: make([]*Cell, len(res))}
		for i, e := range res {
			arr.E[i] = &Cell{V: intSlice(e)}
		}
		return SliceV{A: arr, Len: len(res), Cap: len(res)}, true
	case "ReplaceAllString":
		rv, ok := args[2].(StrV)
		if !ok {
			return nil, false
		}
		repl, ok := rv.concrete()
		if !ok {
			return nil, false
		}
		return cstr(re.ReplaceAllString(src, repl)), true
	}
	return nil, false
}
