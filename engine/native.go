package main

import (
	"strings"

	"golang.org/x/tools/go/ssa"
)

// Pure stdlib string functions on fully concrete arguments are computed by the
// host Go runtime (their SSA bottoms out in assembly).

func concStr(v Val) (string, bool) {
	s, ok := v.(StrV)
	if !ok {
		return "", false
	}
	return s.concrete()
}
func concI(v Val) (int, bool) {
	b, ok := v.(BV)
	if !ok || !b.Con {
		return 0, false
	}
	return int(sext(b)), true
}
func concStrs(v Val) ([]string, bool) {
	sl, ok := v.(SliceV)
	if !ok {
		return nil, false
	}
	out := make([]string, sl.Len)
	for i := range out {
		s, ok := concStr(sl.A.E[sl.Off+i].V)
		if !ok {
			return nil, false
		}
		out[i] = s
	}
	return out, true
}
func strSlice(ss []string) Val {
	if ss == nil {
		return SliceV{}
	}
	a := &ArrV{E: make([]*Cell, len(ss))}
	for i, s := range ss {
		a.E[i] = &Cell{V: cstr(s)}
	}
	return SliceV{A: a, Len: len(ss), Cap: len(ss)}
}
func ci(i int) Val { return cbv(64, uint64(int64(i))) }

func (x *Exec) nativeStrings(fn *ssa.Function, args []Val) (Val, bool) {
	if fn.Pkg == nil || fn.Pkg.Pkg.Path() != "strings" || fn.Signature.Recv() != nil {
		return nil, false
	}
	s := make([]string, len(args))
	n := make([]int, len(args))
	isS := make([]bool, len(args))
	isN := make([]bool, len(args))
	for i, a := range args {
		s[i], isS[i] = concStr(a)
		n[i], isN[i] = concI(a)
	}
	ss2 := func(k int) bool {
		for i := 0; i < k; i++ {
			if !isS[i] {
				return false
			}
		}
		return len(args) >= k
	}
	switch fn.Name() {
	case "Index":
		if ss2(2) {
			return ci(strings.Index(s[0], s[1])), true
		}
	case "LastIndex":
		if ss2(2) {
			return ci(strings.LastIndex(s[0], s[1])), true
		}
	case "IndexByte":
		if isS[0] && isN[1] {
			return ci(strings.IndexByte(s[0], byte(n[1]))), true
		}
	case "Count":
		if ss2(2) {
			return ci(strings.Count(s[0], s[1])), true
		}
	case "Contains":
		if ss2(2) {
			return cbool(strings.Contains(s[0], s[1])), true
		}
	case "HasPrefix":
		if ss2(2) {
			return cbool(strings.HasPrefix(s[0], s[1])), true
		}
	case "HasSuffix":
		if ss2(2) {
			return cbool(strings.HasSuffix(s[0], s[1])), true
		}
	case "EqualFold":
		if ss2(2) {
			return cbool(strings.EqualFold(s[0], s[1])), true
		}
	case "TrimPrefix":
		if ss2(2) {
			return cstr(strings.TrimPrefix(s[0], s[1])), true
		}
	case "TrimSuffix":
		if ss2(2) {
			return cstr(strings.TrimSuffix(s[0], s[1])), true
		}
	case "Trim":
		if ss2(2) {
			return cstr(strings.Trim(s[0], s[1])), true
		}
	case "TrimLeft":
		if ss2(2) {
			return cstr(strings.TrimLeft(s[0], s[1])), true
		}
	case "TrimRight":
		if ss2(2) {
			return cstr(strings.TrimRight(s[0], s[1])), true
		}
	case "TrimSpace":
		if ss2(1) {
			return cstr(strings.TrimSpace(s[0])), true
		}
	case "ToUpper":
		if ss2(1) {
			return cstr(strings.ToUpper(s[0])), true
		}
	case "ToLower":
		if ss2(1) {
			return cstr(strings.ToLower(s[0])), true
		}
	case "Repeat":
		if isS[0] && isN[1] && n[1] >= 0 && n[1] < 1000 {
			return cstr(strings.Repeat(s[0], n[1])), true
		}
	case "Replace":
		if ss2(3) && isN[3] {
			return cstr(strings.Replace(s[0], s[1], s[2], n[3])), true
		}
	case "ReplaceAll":
		if ss2(3) {
			return cstr(strings.ReplaceAll(s[0], s[1], s[2])), true
		}
	case "Split":
		if ss2(2) {
			return strSlice(strings.Split(s[0], s[1])), true
		}
	case "SplitN":
		if ss2(2) && isN[2] {
			return strSlice(strings.SplitN(s[0], s[1], n[2])), true
		}
	case "Fields":
		if ss2(1) {
			return strSlice(strings.Fields(s[0])), true
		}
	case "Join":
		if l, ok := concStrs(args[0]); ok && isS[1] {
			return cstr(strings.Join(l, s[1])), true
		}
	}
	return nil, false
}
