package main

import (
	"flag"
	"fmt"
	"os"
	"runtime"
	"runtime/debug"
	"runtime/pprof"
	"sort"
	"strconv"
	"strings"
)

func envOr(k, d string) string {
	if v := os.Getenv(k); v != "" {
		return v
	}
	return d
}

func main() {
	debug.SetGCPercent(400)
	if len(os.Args) < 2 {
		fmt.Fprintln(os.Stderr, "usage: vcheck run|check|replay|selftest ...")
		os.Exit(2)
	}
	switch os.Args[1] {
	case "run":
		cmdRun(os.Args[2:])
	case "check":
		os.Exit(cmdCheck(os.Args[2:]))
	case "manifest":
		os.Exit(cmdManifest())
	case "replay":
		os.Exit(cmdReplay(os.Args[2:]))
	default:
		fmt.Fprintln(os.Stderr, "unknown command")
		os.Exit(2)
	}
}

// cmdRun: developer entry: explore one harness and print a summary.
func cmdRun(args []string) {
	fs := flag.NewFlagSet("run", flag.ExitOnError)
	pkg := fs.String("pkg", "", "package path suffix under github.com/go-kid/ioc")
	entry := fs.String("entry", "", "harness function")
	params := fs.String("p", "", "params k=v,k=v")
	workers := fs.Int("j", runtime.NumCPU(), "workers")
	perm := fs.Bool("perm", false, "permute range order")
	permCall := fs.Bool("permcall", false, "fresh permutation per range call")
	permCoarse := fs.Bool("permcoarse", false, "coarse permutations for large maps")
	sched := fs.String("sched", "", "join|interleave")
	sw := fs.Int("switches", 3, "max context switches")
	races := fs.Bool("races", false, "race detection")
	realLog := fs.Bool("reallog", false, "execute the real syslog package")
	term := fs.Bool("term", false, "budget excess is a violation")
	steps := fs.Int("steps", 0, "max steps")
	depth := fs.Int("depth", 0, "max call depth")
	knownF := fs.String("known", "", "comma-separated known keys")
	doReplay := fs.Bool("replay", false, "replay violations natively")
	fs.Parse(args)
	w, err := LoadWorld(envOr("VERIF_REPO", "/repo"), envOr("VERIF_HOME", "/verif"), nil)
	if err != nil {
		fmt.Println("INCONCLUSIVE", err)
		os.Exit(2)
	}
	fmt.Printf("load+ssa %.1fs\n", w.loadS)
	spec := RunSpec{Name: *entry, Pkg: "github.com/go-kid/ioc/" + *pkg, Entry: *entry, Params: map[string]int{},
		Opts: ExecOpts{PermuteRange: *perm, PermutePerCall: *permCall, PermuteCoarse: *permCoarse, Sched: *sched, MaxSwitches: *sw, Races: *races, RealSyslog: *realLog, Termination: *term, MaxSteps: *steps, MaxDepth: *depth}}
	if *pkg == "" {
		spec.Pkg = "github.com/go-kid/ioc"
	}
	if *params != "" {
		for _, kv := range strings.Split(*params, ",") {
			p := strings.SplitN(kv, "=", 2)
			v, _ := strconv.Atoi(p[1])
			spec.Params[p[0]] = v
		}
	}
	known := map[string]bool{}
	for _, k := range strings.Split(*knownF, ",") {
		if k != "" {
			known[k] = true
		}
	}
	if pf := os.Getenv("VERIF_PROF"); pf != "" {
		f, _ := os.Create(pf)
		pprof.StartCPUProfile(f)
		defer pprof.StopCPUProfile()
	}
	res := w.Explore(spec, known, *workers, 0)
	printResult(res)
	if *doReplay {
		for _, v := range res.distinctViolations() {
			ok, out := w.replayNative(spec, v, known)
			fmt.Printf("  replay %s %q: reproduced=%v\n", v.Kind, v.Label, ok)
			if !ok {
				fmt.Println(out)
			}
		}
	}
}

func printResult(res *RunResult) {
	fmt.Printf("entry=%s params=%v paths=%d dropped=%d steps=%d maxsteps=%d viol=%d known=%d wall=%.1fs (%.2f ms/path)\n",
		res.Spec.Entry, res.Spec.Params, res.Paths, res.Dropped, res.Steps, res.MaxSteps, res.NViol, res.NKnown, res.WallS, res.WallS*1000/float64(max(res.Paths, 1)))
	var qk []string
	for k := range res.Queries {
		qk = append(qk, k)
	}
	sort.Strings(qk)
	fmt.Print("  queries:")
	for _, k := range qk {
		fmt.Printf(" %s=%d", k, res.Queries[k])
	}
	fmt.Println()
	fmt.Println("  covers:", res.Covers)
	for k, v := range res.Inconcl {
		fmt.Printf("  INCONCLUSIVE x%d: %s\n", v, k)
	}
	for _, v := range res.distinctViolations() {
		fmt.Printf("  VIOL kind=%s known=%q label=%q trace=%v\n", v.Kind, v.Known, v.Label, v.Trace)
	}
}
