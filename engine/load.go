package main

import (
	"crypto/sha256"
	"fmt"
	"go/types"
	"os"
	"path/filepath"
	"strings"
	"sync"
	"time"

	"golang.org/x/tools/go/packages"
	"golang.org/x/tools/go/ssa"
	"golang.org/x/tools/go/ssa/ssautil"
)

// World is the SSA program built from /repo's current working tree plus the
// harness overlay.  It is rebuilt on every run; nothing is cached.
type World struct {
	prog    *ssa.Program
	repo    string
	verif   string
	overlay map[string][]byte
	loadS   float64

	loggerType types.Type
	rtypePtr   types.Type
	errType    types.Type

	redirect       map[string]*ssa.Function
	alwaysRedirect map[string]bool
	pkgs           map[string]*ssa.Package
	srcCache       map[string][]byte
	names          sync.Map // *ssa.Function -> string
	plain          sync.Map // functions that are simply executed from SSA
	regIdx         sync.Map
	byName         sync.Map // printed name -> *ssa.Function (reflect model helpers)
}

// regIndex numbers the SSA values of a function (params, free variables, value-defining instructions).
func (w *World) regIndex(fn *ssa.Function) map[ssa.Value]int {
	if v, ok := w.regIdx.Load(fn); ok {
		return v.(map[ssa.Value]int)
	}
	m := map[ssa.Value]int{}
	for _, p := range fn.Params {
		m[p] = len(m)
	}
	for _, p := range fn.FreeVars {
		m[p] = len(m)
	}
	for _, b := range fn.Blocks {
		for _, in := range b.Instrs {
			if v, ok := in.(ssa.Value); ok {
				m[v] = len(m)
			}
		}
	}
	w.regIdx.Store(fn, m)
	return m
}

func (w *World) name(fn *ssa.Function) string {
	if v, ok := w.names.Load(fn); ok {
		return v.(string)
	}
	s := fn.String()
	w.names.Store(fn, s)
	return s
}

func (w *World) initOK(p *ssa.Package) bool {
	if p == nil {
		return false
	}
	path := p.Pkg.Path()
	return strings.HasPrefix(path, "github.com/go-kid/")
}

func mustRead(p string) []byte {
	b, err := os.ReadFile(p)
	if err != nil {
		panic(err)
	}
	return b
}

// harnessOverlay maps every file under <verif>/harness/<rel> to <repo>/<rel>.
func harnessOverlay(verif, repo string) map[string][]byte {
	ov := map[string][]byte{}
	root := filepath.Join(verif, "harness")
	filepath.Walk(root, func(p string, info os.FileInfo, err error) error {
		if err != nil || info.IsDir() || !strings.HasSuffix(p, ".go") {
			return nil
		}
		rel, _ := filepath.Rel(root, p)
		ov[filepath.Join(repo, rel)] = mustRead(p)
		return nil
	})
	return ov
}

func LoadWorld(repo, verif string, extraOverlay map[string][]byte) (*World, error) {
	t0 := time.Now()
	w := &World{repo: repo, verif: verif, pkgs: map[string]*ssa.Package{}, srcCache: map[string][]byte{}}
	w.overlay = harnessOverlay(verif, repo)
	for k, v := range extraOverlay {
		w.overlay[k] = v
	}
	cfg := &packages.Config{
		Mode:       packages.LoadAllSyntax,
		Dir:        repo,
		Env:        append(os.Environ(), "GOFLAGS=-mod=mod", "GOPROXY=off", "GOSUMDB=off", "GOTOOLCHAIN=local"),
		Overlay:    w.overlay,
		BuildFlags: []string{"-tags=verif"},
	}
	pkgs, err := packages.Load(cfg, "./...", "./zzverif/...")
	if err != nil {
		return nil, err
	}
	var errs []string
	packages.Visit(pkgs, nil, func(p *packages.Package) {
		for _, e := range p.Errors {
			errs = append(errs, e.Error())
		}
	})
	if len(errs) > 0 {
		return nil, fmt.Errorf("harness/tree does not compile:\n%s", strings.Join(errs, "\n"))
	}
	prog, _ := ssautil.AllPackages(pkgs, ssa.InstantiateGenerics)
	prog.Build()
	w.prog = prog
	for _, p := range prog.AllPackages() {
		w.pkgs[p.Pkg.Path()] = p
	}
	w.loggerType = types.NewPointer(w.pkg("github.com/go-kid/ioc/syslog").Type("logger").Type())
	w.rtypePtr = types.NewPointer(w.pkg("reflect").Type("rtype").Type())
	w.errType = types.NewPointer(w.pkg("github.com/pkg/errors").Type("fundamental").Type())
	models := w.pkg("github.com/go-kid/ioc/zzverif/models")
	w.redirect = map[string]*ssa.Function{}
	w.alwaysRedirect = map[string]bool{}
	for name, m := range models.Members {
		fn, ok := m.(*ssa.Function)
		if !ok || !strings.HasPrefix(name, "M_") {
			continue
		}
		// M_strings_Index models strings.Index; M_regexp_Regexp_FindString models (*regexp.Regexp).FindString
		parts := strings.Split(strings.TrimPrefix(name, "M_"), "_")
		switch len(parts) {
		case 2:
			w.redirect[parts[0]+"."+parts[1]] = fn
		case 3:
			w.redirect["(*"+parts[0]+"."+parts[1]+")."+parts[2]] = fn
			w.alwaysRedirect["(*"+parts[0]+"."+parts[1]+")."+parts[2]] = true
		}
	}
	w.loadS = time.Since(t0).Seconds()
	return w, nil
}

func (w *World) pkg(path string) *ssa.Package {
	p, ok := w.pkgs[path]
	if !ok {
		panic("no package " + path)
	}
	return p
}

type FuncInfo struct {
	Name   string `json:"name"`
	Pos    string `json:"pos"`
	Instrs int    `json:"ssa_instrs"`
	Hash   string `json:"src_sha256,omitempty"`
	Calls  int    `json:"calls"`
}

// describe returns evidence about an executed function: where it is, how big its
// SSA is and a hash of its source text (so a changed tree shows as a changed encoding).
func (w *World) describe(fn *ssa.Function, calls int) FuncInfo {
	fi := FuncInfo{Name: fn.String(), Calls: calls}
	for _, b := range fn.Blocks {
		fi.Instrs += len(b.Instrs)
	}
	if syn := fn.Syntax(); syn != nil {
		p0 := w.prog.Fset.Position(syn.Pos())
		p1 := w.prog.Fset.Position(syn.End())
		fi.Pos = fmt.Sprintf("%s:%d", p0.Filename, p0.Line)
		src, ok := w.srcCache[p0.Filename]
		if !ok {
			if ov, isOv := w.overlay[p0.Filename]; isOv {
				src = ov
			} else {
				src, _ = os.ReadFile(p0.Filename)
			}
			w.srcCache[p0.Filename] = src
		}
		if p0.Offset >= 0 && p1.Offset <= len(src) && p0.Offset < p1.Offset {
			fi.Hash = fmt.Sprintf("%x", sha256.Sum256(src[p0.Offset:p1.Offset]))[:16]
		}
	}
	return fi
}
