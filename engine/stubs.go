package main

import (
	"crypto/md5"
	"crypto/sha1"
	"crypto/sha256"
	"fmt"
	"go/token"
	"go/types"
	"path"
	"sort"
	"strconv"
	"strings"

	"golang.org/x/tools/go/ssa"
)

const ndPath = "github.com/go-kid/ioc/zzverif/nd"

func (x *Exec) traceConc(v int64) { x.trace = append(x.trace, traceEnt{conc: v}) }

func (x *Exec) violation(kind, label, where string) {
	known := ""
	if len(x.knownOn) > 0 {
		known = x.knownOn[len(x.knownOn)-1]
	}
	v := Violation{Kind: kind, Label: label, Known: known, Where: where, Prefix: append([]int{}, x.decisions...), Slow: x.timerFired}
	v.Trace = x.modelTrace("")
	x.viol = append(x.viol, v)
}

// modelTrace evaluates the nd-call trace under a model of pc ∧ extra.
func (x *Exec) modelTrace(extra string) []int64 {
	var terms []string
	for _, e := range x.trace {
		if e.term != "" {
			terms = append(terms, e.term)
		}
	}
	sat, vals := x.sol.checkModel(extra, terms)
	if !sat {
		return nil
	}
	out := make([]int64, len(x.trace))
	k := 0
	for i, e := range x.trace {
		if e.term == "" {
			out[i] = e.conc
			continue
		}
		u, ok := smtValToInt(vals[k])
		k++
		if !ok {
			panic(solverUnknown{"cannot parse model value " + vals[k-1]})
		}
		if e.w > 0 {
			out[i] = sext(BV{W: e.w, Con: true, C: u & mask(e.w)})
		} else {
			out[i] = int64(u)
		}
	}
	return out
}

func (x *Exec) intrinsic(fn *ssa.Function, args []Val, site string) Val {
	name := fn.Name()
	switch name {
	case "StringUpTo":
		n := x.concInt(args[0], "StringUpTo bound")
		alts := make([]string, n+1)
		for i := range alts {
			alts[i] = "true"
		}
		l := x.choose(alts, "len")
		x.traceConc(int64(l))
		s := StrV{B: make([]BV, l)}
		for i := range s.B {
			s.B[i] = x.fresh(8)
			x.trace = append(x.trace, traceEnt{term: s.B[i].T, w: 8})
		}
		return s
	case "Bytes":
		n := x.concInt(args[0], "Bytes len")
		s := StrV{B: make([]BV, n)}
		for i := range s.B {
			s.B[i] = x.fresh(8)
			x.trace = append(x.trace, traceEnt{term: s.B[i].T, w: 8})
		}
		return s
	case "Bool":
		b := x.freshBool()
		x.trace = append(x.trace, traceEnt{term: b.T, w: 0})
		return b
	case "IntN":
		n := x.concInt(args[0], "IntN bound")
		if n <= 0 {
			panic(abortPath{"IntN(0)"})
		}
		if n == 1 {
			x.traceConc(0)
			return cbv(64, 0)
		}
		v := x.fresh(64)
		x.sol.send(fmt.Sprintf("(assert (bvult %s (_ bv%d 64)))", v.T, n))
		x.trace = append(x.trace, traceEnt{term: v.T, w: 64})
		return v
	case "Choose":
		n := x.concInt(args[0], "Choose bound")
		if n <= 0 {
			panic(abortPath{"Choose(0)"})
		}
		alts := make([]string, n)
		for i := range alts {
			alts[i] = "true"
		}
		k := x.choose(alts, "choose")
		x.traceConc(int64(k))
		return cbv(64, uint64(k))
	case "Int64":
		v := x.fresh(64)
		x.trace = append(x.trace, traceEnt{term: v.T, w: 64})
		return v
	case "Byte":
		v := x.fresh(8)
		x.trace = append(x.trace, traceEnt{term: v.T, w: 8})
		return v
	case "Param":
		k, _ := args[0].(StrV).concrete()
		if v, ok := x.par[k]; ok {
			return cbv(64, uint64(int64(v)))
		}
		return args[1]
	case "Observe":
		l, _ := args[0].(StrV).concrete()
		sl := args[1].(SliceV)
		o := obsEnt{label: l}
		for i := 0; i < sl.Len; i++ {
			o.vals = append(o.vals, sl.A.E[sl.Off+i].V)
		}
		x.obs = append(x.obs, o)
		return nil
	case "Cover":
		l, _ := args[0].(StrV).concrete()
		x.covers = append(x.covers, l)
		return nil
	case "Assume":
		x.assumes++
		b := args[0].(BoolV)
		if b.Con {
			if !b.C {
				panic(abortPath{"assume false"})
			}
			return nil
		}
		ok := x.sol.check(b.T)
		x.count("assume", ok)
		if !ok {
			panic(abortPath{"assume infeasible"})
		}
		x.sol.send("(assert " + b.T + ")")
		return nil
	case "Assert":
		b := args[0].(BoolV)
		l, _ := args[1].(StrV).concrete()
		if b.Con {
			x.q["assert.const"]++
			if !b.C {
				x.violation("assert", l, site)
				panic(abortPath{"assertion violated"})
			}
			return nil
		}
		neg := "(not " + b.T + ")"
		bad := x.sol.check(neg)
		x.count("assert", bad)
		if x.sol.log != nil {
			x.logQuery(neg)
		}
		if bad {
			// capture the counterexample under pc ∧ ¬c
			known := ""
			if len(x.knownOn) > 0 {
				known = x.knownOn[len(x.knownOn)-1]
			}
			v := Violation{Kind: "assert", Label: l, Known: known, Where: site, Prefix: append([]int{}, x.decisions...), Slow: x.timerFired}
			v.Trace = x.modelTrace(neg)
			x.viol = append(x.viol, v)
			// continue on the side where it holds, if any
			if !x.sol.check(b.T) {
				panic(abortPath{"assertion violated on the whole path"})
			}
			x.sol.send("(assert " + b.T + ")")
		}
		return nil
	case "Known":
		k, _ := args[0].(StrV).concrete()
		if !x.known[k] {
			return cbool(false)
		}
		b := args[1].(BoolV)
		if x.branch(b) {
			x.knownOn = append(x.knownOn, k)
			return cbool(true)
		}
		return cbool(false)
	case "Catch":
		return x.catch(args[0].(FuncV))
	case "Gate", "Barrier", "Slow":
		x.mainGor()
		x.yield()
		return nil
	case "ReleaseSlow":
		return nil
	case "Perm":
		n := x.concInt(args[0], "Perm size")
		idx := make([]int, n)
		for i := range idx {
			idx[i] = i
		}
		for i := 0; i < n-1; i++ {
			alts := make([]string, n-i)
			for k := range alts {
				alts[k] = "true"
			}
			j := i + x.choose(alts, "perm")
			idx[i], idx[j] = idx[j], idx[i]
		}
		a := &ArrV{E: make([]*Cell, n)}
		for i := range a.E {
			a.E[i] = &Cell{V: cbv(64, uint64(idx[i]))}
			x.traceConc(int64(idx[i]))
		}
		return SliceV{A: a, Len: n, Cap: n}
	case "PermuteRange":
		x.opts.PermuteRange = args[0].(BoolV).C
		x.permCache = nil
		return nil
	case "Symbolic":
		return cbool(true)
	case "Concretize":
		// pick one model for the bytes of s and fix it on this path (one representative input)
		sv := args[0].(StrV)
		var terms []string
		for _, b := range sv.B {
			if !b.Con {
				terms = append(terms, b.T)
			}
		}
		if len(terms) == 0 {
			return sv
		}
		sat, vals := x.sol.checkModel("", terms)
		if !sat {
			panic(abortPath{"infeasible"})
		}
		out := StrV{B: make([]BV, len(sv.B))}
		k := 0
		for i, b := range sv.B {
			if b.Con {
				out.B[i] = b
				continue
			}
			u, _ := smtValToInt(vals[k])
			k++
			out.B[i] = cbv(8, u)
			x.sol.send(fmt.Sprintf("(assert (= %s (_ bv%d 8)))", b.T, u&0xff))
		}
		return out
	}
	panic(unsupported{"nd function " + name})
}

func (x *Exec) logQuery(q string) {}

// catch runs f and reports whether a Go panic escaped it (natively: recover()).
func (x *Exec) catch(f FuncV) (res Val) {
	x.catching++
	depth := x.depth
	defer func() {
		x.catching--
		if r := recover(); r != nil {
			if _, isGo := r.(panicV); isGo {
				x.depth = depth
				res = cbool(true)
				return
			}
			panic(r)
		}
	}()
	x.call(f, nil, "nd.Catch")
	return cbool(false)
}

func (x *Exec) smap(recv Val) *MapV {
	c := recv.(PtrV).C
	m, ok := x.syncMaps[c]
	if !ok {
		m = &MapV{}
		x.syncMaps[c] = m
	}
	return m
}

func (x *Exec) opaqueErr() Val {
	return IfaceV{T: x.w.errType, V: PtrV{C: &Cell{V: x.zero(x.w.errType.(*types.Pointer).Elem())}}}
}

func sliceVals(v Val) []Val {
	sl := v.(SliceV)
	out := make([]Val, sl.Len)
	for i := range out {
		out[i] = sl.A.E[sl.Off+i].V
	}
	return out
}

// sprintf: native when every operand is concrete; %s/%v over symbolic strings
// are spliced; anything else yields an opaque string.
func (x *Exec) sprintf(format Val, rest []Val) Val {
	f, ok := format.(StrV).concrete()
	if !ok {
		return StrV{Opaque: true}
	}
	nat := make([]any, len(rest))
	allConc := true
	for i, a := range rest {
		iv, ok := a.(IfaceV)
		if !ok {
			allConc = false
			continue
		}
		switch v := iv.V.(type) {
		case StrV:
			c, ok := v.concrete()
			if !ok {
				allConc = false
			} else {
				nat[i] = c
			}
		case BV:
			if !v.Con {
				allConc = false
			} else if _, signed, _ := bvWidth(iv.T); signed {
				nat[i] = sext(v)
			} else {
				nat[i] = v.C
			}
		case BoolV:
			if !v.Con {
				allConc = false
			} else {
				nat[i] = v.C
			}
		case nil:
			nat[i] = nil
		case OpaqueV:
			if v.F != nil {
				nat[i] = *v.F
			} else {
				allConc = false
			}
		default:
			if iv.T == nil {
				nat[i] = nil
			} else {
				allConc = false
			}
		}
	}
	if allConc {
		return cstr(fmt.Sprintf(f, nat...))
	}
	// splice: only %s and %v verbs over strings
	var out StrV
	ai := 0
	for i := 0; i < len(f); i++ {
		if f[i] != '%' {
			out.B = append(out.B, cbv(8, uint64(f[i])))
			continue
		}
		if i+1 >= len(f) {
			return StrV{Opaque: true}
		}
		i++
		switch f[i] {
		case '%':
			out.B = append(out.B, cbv(8, '%'))
		case 's', 'v':
			if ai >= len(rest) {
				return StrV{Opaque: true}
			}
			iv, ok := rest[ai].(IfaceV)
			ai++
			if !ok {
				return StrV{Opaque: true}
			}
			s, ok := iv.V.(StrV)
			if !ok {
				return StrV{Opaque: true}
			}
			if s.Opaque {
				return StrV{Opaque: true}
			}
			out.B = append(out.B, s.B...)
		default:
			return StrV{Opaque: true}
		}
	}
	return out
}

func (x *Exec) stub(fn *ssa.Function, args []Val, site string) (Val, bool) {
	name := x.w.name(fn)
	switch name {
	// ---- sync.Map: every method is one atomic visible operation
	case "(*sync.Map).Load":
		x.visible()
		m := x.smap(args[0])
		x.stubsUsed["sync.Map"] = true
		if e, ok := x.mapLookup(m, args[1]); ok {
			x.hbAcquire(e)
			return TupleV{e.V, cbool(true)}, true
		}
		return TupleV{IfaceV{}, cbool(false)}, true
	case "(*sync.Map).Store":
		x.visible()
		m := x.smap(args[0])
		x.stubsUsed["sync.Map"] = true
		if e, ok := x.mapLookup(m, args[1]); ok {
			e.V = args[2]
			x.hbRelease(e)
		} else {
			e := &MapEnt{K: args[1], V: args[2]}
			m.Ent = append(m.Ent, e)
			x.hbRelease(e)
		}
		return nil, true
	case "(*sync.Map).LoadOrStore":
		x.visible()
		m := x.smap(args[0])
		x.stubsUsed["sync.Map"] = true
		if e, ok := x.mapLookup(m, args[1]); ok {
			x.hbAcquire(e)
			return TupleV{e.V, cbool(true)}, true
		}
		e := &MapEnt{K: args[1], V: args[2]}
		m.Ent = append(m.Ent, e)
		x.hbRelease(e)
		return TupleV{args[2], cbool(false)}, true
	case "(*sync.Map).Range":
		x.visible()
		m := x.smap(args[0])
		x.stubsUsed["sync.Map"] = true
		ents := x.rangeOrder(m.Ent)
		for _, e := range ents {
			x.hbAcquire(e)
			r := x.call(args[1].(FuncV), []Val{e.K, e.V}, "sync.Map.Range")
			if !x.branch(r.(BoolV)) {
				break
			}
		}
		return nil, true
	case "(*sync.Map).Delete":
		x.visible()
		m := x.smap(args[0])
		x.stubsUsed["sync.Map"] = true
		x.mapDelete(m, args[1])
		return nil, true
	case "(*sync.Once).Do":
		// one atomic visible step decides who runs f; f runs at most once
		x.visible()
		c := args[0].(PtrV).C
		if x.onces == nil {
			x.onces = map[*Cell]bool{}
		}
		if x.onces[c] {
			return nil, true
		}
		x.onces[c] = true
		x.stubsUsed["sync.Once"] = true
		x.call(args[1].(FuncV), nil, "sync.Once.Do")
		return nil, true
	// ---- WaitGroup / Mutex
	case "(*sync.WaitGroup).Add":
		x.wgAdd(args[0].(PtrV).C, x.concInt(args[1], "wg.Add"))
		return nil, true
	case "(*sync.WaitGroup).Done":
		x.wgAdd(args[0].(PtrV).C, -1)
		return nil, true
	case "(*sync.WaitGroup).Wait":
		x.wgWait(args[0].(PtrV).C)
		return nil, true
	case "(*sync.Mutex).Lock", "(*sync.RWMutex).Lock", "(*sync.RWMutex).RLock":
		x.muLock(args[0].(PtrV).C)
		return nil, true
	case "(*sync.Mutex).Unlock", "(*sync.RWMutex).Unlock", "(*sync.RWMutex).RUnlock":
		x.muUnlock(args[0].(PtrV).C)
		return nil, true
	// ---- sync/atomic: each operation is one atomic visible operation (and a synchronisation point)
	case "sync/atomic.AddInt64", "sync/atomic.AddInt32", "(*sync/atomic.Int64).Add", "(*sync/atomic.Int32).Add":
		x.visible()
		c := x.atomicCell(args[0])
		old := c.V.(BV)
		nv := x.binop(token.ADD, old, args[1], types.Typ[types.Int64], nil).(BV)
		c.V = nv
		x.hbAtomic(c)
		return nv, true
	case "sync/atomic.LoadInt64", "sync/atomic.LoadInt32", "(*sync/atomic.Int64).Load", "(*sync/atomic.Int32).Load":
		x.visible()
		c := x.atomicCell(args[0])
		x.hbAtomic(c)
		return c.V, true
	case "sync/atomic.StoreInt64", "sync/atomic.StoreInt32", "(*sync/atomic.Int64).Store", "(*sync/atomic.Int32).Store":
		x.visible()
		c := x.atomicCell(args[0])
		c.V = args[1]
		x.hbAtomic(c)
		return nil, true
	// ---- sort.Slice runs from real stdlib SSA; only the unsafe reflectlite bits are intrinsic
	case "internal/reflectlite.ValueOf":
		iv := args[0].(IfaceV)
		return RValV{T: iv.T, V: iv.V}, true
	case "(internal/reflectlite.Value).Len":
		return cbv(64, uint64(args[0].(RValV).V.(SliceV).Len)), true
	case "internal/reflectlite.Swapper":
		sl := args[0].(IfaceV).V.(SliceV)
		return FuncV{Native: func(x *Exec, a []Val) Val {
			i, j := x.concInt(a[0], "swap i"), x.concInt(a[1], "swap j")
			ci, cj := sl.A.E[sl.Off+i], sl.A.E[sl.Off+j]
			vi, vj := copyVal(ci.V), copyVal(cj.V)
			assign(ci, vj)
			assign(cj, vi)
			return nil
		}}, true
	// ---- fmt / strings.Builder
	case "fmt.Sprintf":
		return x.sprintf(args[0], sliceVals(args[1])), true
	case "fmt.Sprint", "fmt.Sprintln":
		// native when every operand is a concrete scalar (a single operand: the %v rendering), else opaque
		if ops := sliceVals(args[0]); len(ops) == 1 && name == "fmt.Sprint" {
			if r, ok := x.sprintf(cstr("%v"), ops).(StrV); ok && !r.Opaque {
				return r, true
			}
		}
		return StrV{Opaque: true}, true
	case "crypto/sha1.Sum", "crypto/sha256.Sum256", "crypto/md5.Sum":
		// digests of concrete data are computed natively (a digest of symbolic data is not modelled)
		bs := types.NewSlice(types.Typ[types.Byte])
		txt, ok := x.convert(args[0], bs, types.Typ[types.String]).(StrV).concrete()
		if !ok {
			panic(unsupported{name + " of symbolic data"})
		}
		var sum []byte
		switch name {
		case "crypto/sha1.Sum":
			d := sha1.Sum([]byte(txt))
			sum = d[:]
		case "crypto/sha256.Sum256":
			d := sha256.Sum256([]byte(txt))
			sum = d[:]
		default:
			d := md5.Sum([]byte(txt))
			sum = d[:]
		}
		arr := &ArrV{E: make([]*Cell, len(sum))}
		for i, b := range sum {
			arr.E[i] = &Cell{V: cbv(8, uint64(b))}
		}
		return arr, true
	case "fmt.Errorf":
		return x.opaqueErr(), true
	case "fmt.Fprintf", "fmt.Fprint", "fmt.Fprintln":
		// formatted text (content modelled only when it is concrete or spliceable) written with ONE Write call
		w := args[0].(IfaceV)
		if w.T == nil {
			panic(panicV{msg: "fmt.Fprintf to a nil writer"})
		}
		var text StrV
		if name == "fmt.Fprintf" {
			text, _ = x.sprintf(args[1], sliceVals(args[2])).(StrV)
		} else {
			text = StrV{Opaque: true}
		}
		if text.Opaque {
			text = cstr("<formatted text>")
			x.stubsUsed["fmt.Fprintf (opaque text written as a placeholder)"] = true
		}
		buf := x.convert(text, types.Typ[types.String], types.NewSlice(types.Typ[types.Byte]))
		var wm *types.Func
		ms := x.w.prog.MethodSets.MethodSet(w.T)
		if sel := ms.Lookup(nil, "Write"); sel != nil {
			wm = sel.Obj().(*types.Func)
		}
		if wm == nil {
			panic(unsupported{"fmt.Fprintf: writer without Write"})
		}
		res := x.call(FuncV{Fn: x.methodFor(w.T, wm)}, []Val{w.V, buf}, site)
		return res, true
	case "fmt.Println", "fmt.Printf", "fmt.Print":
		return TupleV{cbv(64, 0), IfaceV{}}, true
	case "(*strings.Builder).WriteString":
		c := args[0].(PtrV).C
		old := x.builders[c]
		a := args[1].(StrV)
		x.builders[c] = StrV{B: append(append([]BV{}, old.B...), a.B...), Opaque: old.Opaque || a.Opaque}
		return TupleV{cbv(64, uint64(len(a.B))), IfaceV{}}, true
	case "(*strings.Builder).WriteByte":
		c := args[0].(PtrV).C
		old := x.builders[c]
		x.builders[c] = StrV{B: append(append([]BV{}, old.B...), args[1].(BV)), Opaque: old.Opaque}
		return IfaceV{}, true
	case "(*strings.Builder).String":
		return x.builders[args[0].(PtrV).C], true
	case "(*strings.Builder).Len":
		return cbv(64, uint64(len(x.builders[args[0].(PtrV).C].B))), true
	// ---- pkg/errors: opaque non-nil error; Wrap*(nil) = nil as documented
	case "github.com/pkg/errors.Errorf", "github.com/pkg/errors.New":
		x.stubsUsed["pkg/errors"] = true
		return x.opaqueErr(), true
	case "github.com/pkg/errors.Wrapf", "github.com/pkg/errors.Wrap", "github.com/pkg/errors.WithMessage", "github.com/pkg/errors.WithMessagef", "github.com/pkg/errors.WithStack":
		x.stubsUsed["pkg/errors"] = true
		if args[0].(IfaceV).T == nil {
			return IfaceV{}, true
		}
		return x.opaqueErr(), true
	case "(*github.com/pkg/errors.fundamental).Error", "(*github.com/pkg/errors.withMessage).Error", "(*github.com/pkg/errors.withStack).Error":
		return cstr("<error>"), true
	// ---- process environment
	case "flag.String":
		return PtrV{C: &Cell{V: StrV{}}}, true
	case "flag.StringVar", "flag.Parse", "flag.Var", "flag.BoolVar", "flag.IntVar":
		return nil, true
	case "regexp.MustCompile":
		return PtrV{C: &Cell{V: args[0]}}, true
	case "log.New":
		return PtrV{}, true
	case "os.ReadFile":
		// environment stub: the file named p contains "F:"+p (harnesses create exactly that natively)
		p, ok := args[0].(StrV).concrete()
		if !ok {
			panic(unsupported{"os.ReadFile symbolic path"})
		}
		x.stubsUsed["os.ReadFile (file p contains \"F:\"+p)"] = true
		return TupleV{x.convert(cstr("F:"+p), types.Typ[types.String], types.NewSlice(types.Typ[types.Byte])), IfaceV{}}, true
	case "time.After":
		// environment stub: time is adversarial - the timer's channel may deliver at any moment
		x.stubsUsed["time.After/NewTimer (the timer may fire at any moment)"] = true
		return &ChanV{cap: 1, timer: true, cvc: vclock{}}, true
	case "time.Sleep":
		x.mainGor()
		x.yield()
		return nil, true
	case "os.Exit":
		panic(abortPath{"os.Exit"})
	case "path.Join":
		parts := sliceVals(args[0])
		ss := make([]string, len(parts))
		for i := range parts {
			s, ok := parts[i].(StrV).concrete()
			if !ok {
				panic(unsupported{"path.Join symbolic"})
			}
			ss[i] = s
		}
		return cstr(path.Join(ss...)), true
	case "strconv.ParseFloat":
		if str, ok := args[0].(StrV).concrete(); ok {
			bits, _ := concI(args[1])
			fv, err := strconv.ParseFloat(str, bits)
			if err != nil {
				return TupleV{OpaqueV{Kind: "float", Key: "0"}, x.opaqueErr()}, true
			}
			return TupleV{OpaqueV{Kind: "float", Key: "f:" + strconv.FormatFloat(fv, 'g', -1, 64), F: &fv}, IfaceV{}}, true
		}
		// symbolic text: fork over every feasible text (at most 128), then compute natively
		x.stubsUsed["strconv.ParseFloat (native, text concretised by forking over feasible values)"] = true
		str := x.concStr(args[0].(StrV), 128, "ParseFloat argument")
		bits, _ := concI(args[1])
		fv, err := strconv.ParseFloat(str, bits)
		if err != nil {
			return TupleV{OpaqueV{Kind: "float", Key: "0"}, x.opaqueErr()}, true
		}
		return TupleV{OpaqueV{Kind: "float", Key: "f:" + strconv.FormatFloat(fv, 'g', -1, 64), F: &fv}, IfaceV{}}, true
	case "strconv.FormatFloat":
		if o, ok := args[0].(OpaqueV); ok && o.F != nil {
			fmtb, ok1 := concI(args[1])
			prec, ok2 := concI(args[2])
			bits, ok3 := concI(args[3])
			if ok1 && ok2 && ok3 {
				return cstr(strconv.FormatFloat(*o.F, byte(fmtb), prec, bits)), true
			}
		}
		return StrV{Opaque: true}, true
	case "strconv.FormatInt":
		if b, ok := args[0].(BV); ok && b.Con {
			if base, ok := concI(args[1]); ok {
				return cstr(strconv.FormatInt(sext(b), base)), true
			}
		}
		return StrV{Opaque: true}, true
	case "strconv.FormatBool":
		b := args[0].(BoolV)
		if x.branch(b) {
			return cstr("true"), true
		}
		return cstr("false"), true
	case "strconv.Itoa":
		b := args[0].(BV)
		if b.Con {
			return cstr(strconv.Itoa(int(sext(b)))), true
		}
		return StrV{Opaque: true}, true
	case "(*log.Logger).Printf", "(*log.Logger).Println", "(*log.Logger).Print", "(*log.Logger).Output":
		// the stdlib logger's own locking and I/O are outside; one call = one atomic step
		x.visible()
		return nil, true
	}
	if !x.opts.RealSyslog {
		if r, ok := x.syslogStub(fn, name, args, site); ok {
			return r, true
		}
	} else if name == "log.New" {
		return PtrV{C: &Cell{V: cbv(64, 0)}}, true
	}
	if r, ok := x.libStub(fn, args, site); ok {
		return r, true
	}
	return nil, false
}

// atomicCell: the int cell behind an atomic operand (*int64 or *atomic.Int64)
func (x *Exec) atomicCell(p Val) *Cell {
	c := p.(PtrV).C
	if c == nil {
		panic(panicV{msg: "atomic operation on nil pointer"})
	}
	for {
		sv, ok := c.V.(*StructV)
		if !ok {
			return c
		}
		c = sv.F[len(sv.F)-1] // atomic.Int64{_ noCopy; _ align64; v int64}
	}
}

func (x *Exec) hbAtomic(c *Cell) {
	if !x.opts.Races || len(x.gors) < 2 {
		return
	}
	vc := x.atomVC[c]
	if vc == nil {
		vc = vclock{}
		x.atomVC[c] = vc
	}
	x.cur.vc.join(vc)
	vc.join(x.cur.vc)
	x.cur.vc[x.cur.id]++
}

// syslogStub: logging is not the subject; Panic*/Fatal* keep their control effect (default level)
func (x *Exec) syslogStub(fn *ssa.Function, name string, args []Val, site string) (Val, bool) {
	switch name {
	case "github.com/go-kid/ioc/syslog.Pref":
		// one logger object per prefix (as the real package caches them), logging itself is a no-op
		x.stubsUsed["syslog (no-op logging; Pref returns one logger object per prefix)"] = true
		key := x.showVal(args[0])
		if sv, ok := args[0].(StrV); ok {
			if c, ok := sv.concrete(); ok {
				key = "c:" + c
			}
		}
		if x.loggers == nil {
			x.loggers = map[string]*Cell{}
		}
		c, ok := x.loggers[key]
		if !ok {
			lt := x.w.loggerType.(*types.Pointer).Elem()
			c = &Cell{V: x.zero(lt)}
			x.loggers[key] = c
		}
		return IfaceV{T: x.w.loggerType, V: PtrV{C: c}}, true
	case "github.com/go-kid/ioc/syslog.New":
		return IfaceV{T: x.w.loggerType, V: PtrV{}}, true
	case "(*github.com/go-kid/ioc/syslog.logger).Panic", "(*github.com/go-kid/ioc/syslog.logger).Panicf":
		panic(panicV{msg: "syslog.Panic at " + x.here(site)})
	case "(*github.com/go-kid/ioc/syslog.logger).Fatal", "(*github.com/go-kid/ioc/syslog.logger).Fatalf":
		panic(abortPath{"syslog.Fatal -> os.Exit"})
	}
	if strings.HasPrefix(name, "(*github.com/go-kid/ioc/syslog.logger).") {
		switch fn.Name() {
		case "Level", "Pref":
			return IfaceV{T: x.w.loggerType, V: PtrV{}}, true
		}
		return nil, true
	}
	if strings.HasPrefix(name, "github.com/go-kid/ioc/syslog.") && fn.Name() != "init" {
		switch fn.Name() {
		case "Panic", "Panicf":
			panic(panicV{msg: "syslog.Panic at " + x.here(site)})
		case "Fatal", "Fatalf":
			panic(abortPath{"syslog.Fatal -> os.Exit"})
		case "Level", "SetLogger":
			return nil, true
		}
		return nil, true
	}
	return nil, false
}

// visible marks a visible operation of the interleaving discipline.
func (x *Exec) visible() {
	if x.opts.Sched == "interleave" && len(x.gors) > 1 {
		x.yield()
	}
}

// happens-before edges through sync.Map entries (per key)

func (x *Exec) hbRelease(e *MapEnt) {
	if !x.opts.Races || len(x.gors) < 2 {
		return
	}
	vc := x.entVC[e]
	if vc == nil {
		vc = vclock{}
		x.entVC[e] = vc
	}
	vc.join(x.cur.vc)
	x.cur.vc[x.cur.id]++
}

func (x *Exec) hbAcquire(e *MapEnt) {
	if !x.opts.Races || len(x.gors) < 2 {
		return
	}
	if vc := x.entVC[e]; vc != nil {
		x.cur.vc.join(vc)
	}
}

// redirectApplies: a Go-source model replaces a stdlib function only when an
// argument is symbolic; on concrete arguments the real stdlib SSA runs.
func (x *Exec) redirectApplies(fn *ssa.Function, args []Val) bool {
	for _, a := range args {
		switch v := a.(type) {
		case StrV:
			if _, ok := v.concrete(); !ok {
				return true
			}
		case BV:
			if !v.Con {
				return true
			}
		case SliceV:
			for i := 0; i < v.Len; i++ {
				if s, ok := v.A.E[v.Off+i].V.(StrV); ok {
					if _, ok := s.concrete(); !ok {
						return true
					}
				}
			}
		}
	}
	return x.w.alwaysRedirect[fn.String()]
}

// concStr concretises a symbolic string by forking over all its feasible values (solver-enumerated).
func (x *Exec) concStr(sv StrV, limit int, what string) string {
	if c, ok := sv.concrete(); ok {
		return c
	}
	var terms []string
	var idx []int
	for i, b := range sv.B {
		if !b.Con {
			terms = append(terms, b.T)
			idx = append(idx, i)
		}
	}
	mk := func(vals []uint64) string {
		p := make([]string, len(terms))
		for i := range terms {
			p[i] = fmt.Sprintf("(= %s (_ bv%d 8))", terms[i], vals[i]&0xff)
		}
		if len(p) == 1 {
			return p[0]
		}
		return "(and " + strings.Join(p, " ") + ")"
	}
	build := func(vals []uint64) string {
		b := make([]byte, len(sv.B))
		k := 0
		for i, bv := range sv.B {
			if bv.Con {
				b[i] = byte(bv.C)
			} else {
				b[i] = byte(vals[k])
				k++
			}
		}
		return string(b)
	}
	d := len(x.decisions)
	if d < len(x.prefix) {
		// replay: the decision encodes the chosen bytes base 256
		code := x.prefix[d]
		x.decisions = append(x.decisions, code)
		vals := make([]uint64, len(terms))
		for i := len(terms) - 1; i >= 0; i-- {
			vals[i] = uint64(code & 0xff)
			code >>= 8
		}
		x.sol.send("(assert " + mk(vals) + ")")
		return build(vals)
	}
	if len(terms) > 7 {
		panic(unsupported{"concretisation of " + what + ": more than 7 symbolic bytes"})
	}
	var all [][]uint64
	x.sol.send("(push)")
	for {
		sat, mv := x.sol.checkModel("", terms)
		x.count("concretise", sat)
		if !sat {
			break
		}
		vals := make([]uint64, len(terms))
		for i := range mv {
			u, ok := smtValToInt(mv[i])
			if !ok {
				x.sol.send("(pop)")
				panic(solverUnknown{"cannot parse " + mv[i]})
			}
			vals[i] = u
		}
		all = append(all, vals)
		if len(all) > limit {
			x.sol.send("(pop)")
			panic(unsupported{fmt.Sprintf("concretisation of %s: more than %d feasible values", what, limit)})
		}
		x.sol.send("(assert (not " + mk(vals) + "))")
	}
	x.sol.send("(pop)")
	if len(all) == 0 {
		panic(abortPath{"infeasible"})
	}
	code := func(vals []uint64) int {
		c := 0
		for _, v := range vals {
			c = c<<8 | int(v&0xff)
		}
		return c
	}
	sort.Slice(all, func(i, j int) bool { return code(all[i]) < code(all[j]) })
	for _, v := range all[1:] {
		p := append(append(make([]int, 0, len(x.decisions)+1), x.decisions...), code(v))
		x.newWork = append(x.newWork, p)
	}
	x.decisions = append(x.decisions, code(all[0]))
	x.sol.send("(assert " + mk(all[0]) + ")")
	return build(all[0])
}
