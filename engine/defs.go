package main

// Registry of checks: which harness runs decide which property, with the
// bounds of each tier.  Only bounds that ran clean on the unchanged tree are
// registered here.

type CheckDef struct {
	ID          string
	Title       string
	Runs        func(tier string) []RunSpec
	LevelText   string
	LevelNote   string
	Technique   string
	DesignRef   string
	Assumptions []string
}

const ioc = "github.com/go-kid/ioc"
const techDefault = "bounded symbolic execution of go/ssa + z3 (QF_BV), native replay of counterexamples"

func tierPick(tier string, quick, thorough int) int {
	if tier == "thorough" {
		return thorough
	}
	return quick
}

func checkDefs() map[string]*CheckDef {
	defs := []*CheckDef{
		{
			ID: "C12", Title: "Ordering contract",
			Runs: func(tier string) []RunSpec {
				rs := []RunSpec{
					{Name: "sort", Pkg: ioc + "/util/framework_helper", Entry: "VerifC12Sort", Params: map[string]int{"N": 5}, MustCover: []string{"sorted", "marker-only participant", "pointer of a type whose value is unordered"}},
					{Name: "processors-call-site", Pkg: ioc + "/container/factory", Entry: "VerifC12Processors", Params: map[string]int{"K": tierPick(tier, 3, 4), "DECORATE": 1, "SMART": 1, "DEP": 1}, MustCover: []string{"callbacks checked", "eager processor", "a processor component decorated by an earlier processor", "early-reference and population callbacks checked", "a component created during activation saw part of the chain"}},
					{Name: "runners-call-site", Pkg: ioc + "/app", Entry: "VerifC13", Params: map[string]int{"N": 3, "FAULTS": 0}, MustCover: []string{"all runners ok"}},
					{Name: "loaders-call-site", Pkg: ioc + "/configure", Entry: "VerifC15Load", Params: map[string]int{"N": 3}, MustCover: []string{"several loaders"}},
					{Name: "many-participants", Pkg: ioc + "/configure", Entry: "VerifC15ManyLoaders", MustCover: []string{"many loaders"}},
				}
				if tier == "thorough" {
					// six participants over the four basic classes (all six classes at N=6 is ~400 k paths / 20 min and
					// close to the solver's per-query time limit on a loaded machine)
					rs = append(rs, RunSpec{Name: "sort-6", Pkg: ioc + "/util/framework_helper", Entry: "VerifC12Sort", Params: map[string]int{"N": 6, "CLASSES": 4}, MustCover: []string{"sorted", "marker-only participant"}})
				}
				return rs
			},
			LevelText: "Bounded symbolic model checking of the real SortOrderedComponents/orderedComponentComparator and the real stdlib sort.Slice SSA: for every multiset of up to N participants of the three classes with unconstrained 64-bit Order() values and every input order, z3 shows the output is a permutation, classes are grouped priority<ordered<plain and Order never decreases inside the first two groups.",
			LevelNote: "The call-site run also sequences the early-reference and population callbacks (every harness processor is instantiation-aware and smart, the target refers to itself) and the callbacks seen by a component that is created while the chain is being activated (an eager processor's own dependency). Bound: N=5 participants over six classes (priority-ordered, ordered, unordered, marker-only, value and pointer of a type whose Order() has a pointer receiver), thorough additionally N=6 over the first four; the sorter is stdlib sort.SliceStable executed from SSA (insertion sort blocks + symMerge); 13/16/30 participants with concrete Orders in the run many-participants. Trusted: go/ssa, the engine's SSA semantics (validated by native replay of sampled paths), z3.",
			Technique: "bounded symbolic execution of go/ssa + z3 (QF_BV), native replay of counterexamples",
			DesignRef: "DESIGN.md §3 C12",
		},
		{
			ID: "C19", Title: "Tag argument grammar",
			Runs: func(tier string) []RunSpec {
				return []RunSpec{
					{Name: "total", Pkg: ioc + "/component_definition", Entry: "VerifC19Total", Params: map[string]int{"N": tierPick(tier, 5, 6)}},
					{Name: "required", Pkg: ioc + "/component_definition", Entry: "VerifC19Required", Params: map[string]int{"N": tierPick(tier, 4, 5)}, MustCover: []string{"parsed"}},
					{Name: "faithful", Pkg: ioc + "/component_definition", Entry: "VerifC19Faithful", Params: map[string]int{"L": tierPick(tier, 1, 2)}, MustCover: []string{"bracketed item", "bracketed value", "several valued arguments", "argument name starting with a non-ASCII byte"}},
					{Name: "required-faithful", Pkg: ioc + "/component_definition", Entry: "VerifC19RequiredFaithful", Params: map[string]int{"X": 5}, MustCover: []string{"optional"}},
					{Name: "prop-shorthand", Pkg: ioc + "/container/processors", Entry: "VerifC09ValueSequence", MustCover: []string{"all required values present"}},
				}
			},
			LevelText: "Bounded symbolic model checking of TagArg.Parse/Set/Has/Find, NewProperty, IsRequired and the real strings2.Split/Index SSA over every byte string of length <= N: no path panics (every implicit bounds check is a solver obligation).",
			LevelNote: "A name written in two argument segments yields the items of one segment; the prop shorthand with an empty key keeps its arguments. Bound: all byte strings up to N bytes (quick 5, thorough 6) for totality; structured tags up to 12 bytes for faithfulness. strings.Index/Count/ToUpper are Go-source models validated against the real functions.",
			Technique: "bounded symbolic execution of go/ssa + z3 (QF_BV), native replay of counterexamples",
			DesignRef: "DESIGN.md §3 C19",
		},
	}
	fac := ioc + "/container/factory"
	mc := func(name, entry string, p map[string]int, cover ...string) RunSpec {
		return RunSpec{Name: name, Pkg: fac, Entry: entry, Params: p, MustCover: cover, Opts: ExecOpts{Termination: true, MaxSteps: 400000}}
	}
	rh := func(name, entry string, p map[string]int, cover ...string) RunSpec {
		return RunSpec{Name: name, Pkg: fac, Entry: entry, Params: p, MustCover: cover, Opts: ExecOpts{PermuteRange: true, Termination: true, MaxSteps: 400000}}
	}
	P := func(kv ...int) map[string]int { return nil }
	_ = P
	defs = append(defs,
		&CheckDef{ID: "C01", Title: "One shared instance",
			Runs: func(tier string) []RunSpec {
				r := []RunSpec{
					mc("mc-n2-all-points", "VerifC01", map[string]int{"N": 2, "POINTS": 7}, "start ok", "early reference served"),
					mc("mc-n3-single", "VerifC01", map[string]int{"N": 3, "POINTS": 1}, "start ok"),
					mc("wrap-n2", "VerifC03", map[string]int{"N": 2, "POINTS": 5, "REPLACE": 1}, "start ok", "wrapped", "replaced before instantiation"),
					mc("lookups-from-init-n2", "VerifC01", map[string]int{"N": 2, "POINTS": 5, "LOOKUP": 1}, "start ok", "lookup from Init"),
					mc("lookups-from-init-n3", "VerifC01", map[string]int{"N": 3, "POINTS": 1, "LOOKUP": 1}, "start ok", "lookup from Init"),
					mc("wrap-n2-lookups-from-init", "VerifC03", map[string]int{"N": 2, "POINTS": 1, "LOOKUP": 1}, "start ok", "wrapped"),
					mc("wrap-n2-typed-point", "VerifC03", map[string]int{"N": 2, "POINTS": 9}, "start ok", "start failed", "wrapped"),
				}
				if tier == "thorough" {
					r = append(r, mc("mc-n3-single+slice", "VerifC01", map[string]int{"N": 3, "POINTS": 5}, "start ok"))
				}
				return r
			},
			LevelText: "Bounded symbolic model checking of the real defaultFactory.Refresh/doGetComponent/createComponent/doCreateComponent/populateComponent/getEarlyBeanReference, the real three-level singleton registry, Property.Inject and CreateProxy on every dependency graph over n harness components (edges chosen when the holder is populated; self-edges, cycles, slices): after a successful start every field and slice element that resolved to a component is identical (interface identity) to what GetComponentByName returns, also when one component is wrapped by a post-processor.",
			LevelNote: "After every successful start each self-naming component is also looked up under its type id: nothing is found, in particular no second version is created. Bounds: n<=2 with two single points and a slice point, n<=3 with one single point (thorough: n=3 with single+slice); graph edges are enumerated by forking, not symbolic; resolution of the edges (by type/name/qualifier) is checked separately (C06-C08). Trusted: go/ssa, engine semantics incl. the reflect model (validated by native replay of sampled paths), z3.",
			Technique: techDefault, DesignRef: "DESIGN.md §3 C01"},
		&CheckDef{ID: "C02", Title: "Cycles resolve, start-up terminates",
			Runs: func(tier string) []RunSpec {
				r := []RunSpec{
					mc("mc-n2-req-mix", "VerifC02", map[string]int{"N": 2, "POINTS": 5}, "start ok", "start failed"),
					mc("mc-n3-single-req-mix", "VerifC02", map[string]int{"N": 3, "POINTS": 1}, "start ok", "start failed"),
					rh("self-candidate", "VerifC06", map[string]int{"K": 1, "PRESET": 0}, "start ok"),
					mc("failing-callbacks-terminate", "VerifC09MC", map[string]int{"N": 2, "POINTS": 5, "FAULTS": 2}, "fault injected"),
					rh("slice-targets-sharing-an-address", "VerifC06", map[string]int{"K": 2, "PORDER": 0, "PRESET": 0}, "start ok", "several candidates"),
					rh("components-sharing-an-address-on-a-cycle", "VerifC06FirstField", nil, "component at the holder's address"),
					{Name: "ring-of-70", Pkg: fac, Entry: "VerifC02Ring", Params: map[string]int{"RING": 70}, MustCover: []string{"long cycle resolved"}, Opts: ExecOpts{Termination: true, MaxSteps: 5000000, MaxDepth: 4000}},
				}
				if tier == "thorough" {
					r = append(r, mc("mc-n2-all-points", "VerifC02", map[string]int{"N": 2, "POINTS": 7}, "start ok"))
					r = append(r, mc("mc-n3-single+slice", "VerifC02", map[string]int{"N": 3, "POINTS": 5}, "start ok"))
				}
				return r
			},
			LevelText: "Bounded symbolic model checking of the real factory/registry/Inject code on every directed graph over n components with required/optional bits per point: every path ends within the step budget (unwinding assertion = termination), start-up succeeds unless a required point can only be satisfied by its own holder, no field is ever wired to its holder, every required point holds its target.",
			LevelNote: "Run components-sharing-an-address-on-a-cycle: two components of different types at one address (first field) refer to each other. Bounds: n<=2 (single+slice), n<=3 (single point); step budget 400k SSA instructions per path (max seen ~15k). One fixed long cycle (a ring of 70 components, one path) is run as well; arbitrary graphs with hundreds of nodes are outside the claim.",
			Technique: techDefault, DesignRef: "DESIGN.md §3 C02"},
		&CheckDef{ID: "C03", Title: "No stale version under substitution",
			Runs: func(tier string) []RunSpec {
				r := []RunSpec{
					mc("wrap-n2", "VerifC03", map[string]int{"N": 2, "POINTS": 5, "REPLACE": 1}, "start ok", "start failed", "wrapped", "replaced before instantiation"),
					mc("wrap-n3-single", "VerifC03", map[string]int{"N": 3, "POINTS": 1}, "start ok", "wrapped"),
					mc("wrap-n2-lookups-from-init", "VerifC03", map[string]int{"N": 2, "POINTS": 1, "LOOKUP": 1}, "start ok", "wrapped"),
					mc("wrap-n2-typed-point", "VerifC03", map[string]int{"N": 2, "POINTS": 9}, "start ok", "start failed", "wrapped"),
					mc("repeated-attempt-n2", "VerifC03Retry", map[string]int{"N": 2, "POINTS": 1, "FAULTS": 1, "LOOKUPS": 2, "LAZY": 1}, "start ok", "start failed", "wrapped", "target published by a repeated attempt", "lookup after failure reports an error"),
				}
				if tier == "thorough" {
					r = append(r, mc("wrap-n2-all-points", "VerifC03", map[string]int{"N": 2, "POINTS": 7}, "start ok", "wrapped"))
				}
				return r
			},
			LevelText: "Bounded symbolic model checking of the real factory with a substituting SmartInstantiationAware post-processor whose behaviour (which component is wrapped, at early reference and/or after initialization, same or fresh wrapper) is explored exhaustively on every graph over n components: after a successful start every holder (including the raw object inside a wrapper) sees the version GetComponentByName publishes. Run repeated-attempt-n2 adds histories in which a callback fails once, the application looks components up again and the creation attempt is repeated: every PUBLISHED holder must see the published version (one listed finding class: a holder completed inside an attempt of its target that failed later).",
			LevelNote: "Bounds: n<=2 (single+slice points), n<=3 (single point), one wrapped component; repeated attempts: n=2, one failing callback, 2 lookups after the start; wrapping at before-initialization is outside (the callback contract for it is undocumented).",
			Technique: techDefault, DesignRef: "DESIGN.md §3 C03"},
		&CheckDef{ID: "C04", Title: "Singleton cache protocol",
			Runs: func(tier string) []RunSpec {
				r := []RunSpec{
					{Name: "step-lemmas", Pkg: ioc + "/container/support", Entry: "VerifC04Step", MustCover: []string{"creation failed", "creation succeeded", "op lookup", "op publish"}},
					mc("histories-n2", "VerifC04B", map[string]int{"N": 2, "POINTS": 1, "FAULTS": 1, "LOOKUPS": 2, "LAZY": 1}, "start failed", "lookup after failure reports an error"),
					mc("histories-n2-panicking", "VerifC04B", map[string]int{"N": 2, "POINTS": 1, "FAULTS": 1, "LOOKUPS": 2, "LAZY": 1, "PANICS": 1}, "start failed", "a creation failed by panicking"),
					mc("early-reference-is-what-gets-published", "VerifC03", map[string]int{"N": 2, "POINTS": 5}, "start ok", "wrapped"),
					mc("nested-creations-from-init", "VerifC05", map[string]int{"N": 2, "POINTS": 1, "LAZY": 1, "LOOKUP": 1, "BARE": 1}, "start ok"),
				}
				if tier == "thorough" {
					r = append(r, mc("histories-n2-slice", "VerifC04B", map[string]int{"N": 2, "POINTS": 5, "FAULTS": 2, "LOOKUPS": 2, "LAZY": 1}, "start failed"))
				}
				return r
			},
			LevelText: "Tier A: one registry operation (lookup with/without early references, creation with a nested script, publish, add factory, remove, in-creation query) of the real defaultSingletonComponentRegistry from an ARBITRARY pre-state of its three caches and in-creation set over two symbolic names, compared observationally with a reference model of the intended protocol - one inductive step, so histories of any length are covered. Tier B: real factory histories with failing callbacks and lookups after the failure.",
			LevelNote: "Data bound: two one-byte names (equal or distinct), fixed distinct metas per cache role, nesting depth 1, <=2 lookups during creation. Not labelled proof because the data domain is bounded.",
			Technique: techDefault + "; step-wise refinement check against a reference model", DesignRef: "DESIGN.md §3 C04"},
		&CheckDef{ID: "C05", Title: "Lifecycle order",
			Runs: func(tier string) []RunSpec {
				r := []RunSpec{
					mc("mc-n2-lazy", "VerifC05", map[string]int{"N": 2, "POINTS": 7, "LAZY": 1}, "start ok", "acyclic edge", "lazy component not needed"),
					mc("lifecycle-complete-after-a-repeated-attempt", "VerifC04B", map[string]int{"N": 2, "POINTS": 1, "FAULTS": 1, "LOOKUPS": 2, "LAZY": 1}, "start failed", "lookup after failure reports an error"),
					{Name: "substitute-before-initialization", Pkg: fac, Entry: "VerifC05Substitute", MustCover: []string{"component substituted before initialization"}},
					mc("mc-n3-single-lazy", "VerifC05", map[string]int{"N": 3, "POINTS": 1, "LAZY": 1}, "start ok", "acyclic edge"),
					mc("lookups-and-declining-processor", "VerifC05", map[string]int{"N": 2, "POINTS": 5, "LAZY": 1, "LOOKUP": 1, "PROC0": 1}, "start ok", "acyclic edge"),
				}
				if tier == "thorough" {
					r = append(r, mc("mc-n3-lazy", "VerifC05", map[string]int{"N": 3, "POINTS": 5, "LAZY": 1}, "start ok"))
				}
				return r
			},
			LevelText: "Bounded symbolic model checking of the real Refresh/InitializeComponent/invokeInitMethods/applyPostProcess* with a ghost event log: per component config < before-init < AfterPropertiesSet < Init < after-init, each exactly once; injection points populated before the before-init callback; a dependency that does not depend back is fully initialised before its dependant's Init; lazy components initialised iff an eager one needs them.",
			LevelNote: "Run lifecycle-complete-after-a-repeated-attempt: the C04 retry histories (a lookup never hands out an instance whose last attempt did not run to the end). Bounds: n<=2 (all points) and n<=3 (single point), lazy/eager mix; thorough n=3 single+slice. User post-processors returning nil and wrapping are outside.",
			Technique: techDefault, DesignRef: "DESIGN.md §3 C05"},
	)
	app := ioc + "/app"
	prc := ioc + "/container/processors"
	defs = append(defs,
		&CheckDef{ID: "C13", Title: "Runners",
			Runs: func(tier string) []RunSpec {
				return []RunSpec{
					{Name: "run", Pkg: app, Entry: "VerifC13", Params: map[string]int{"N": tierPick(tier, 3, 4), "FAULTS": 1}, MustCover: []string{"all runners ok", "runner failed", "start-up fault", "runner with a Priority marker but no Order"}},
					{Name: "shared-sorter-many-participants", Pkg: ioc + "/configure", Entry: "VerifC15ManyLoaders", MustCover: []string{"many loaders"}},
					mc("eager-components-initialised", "VerifC05", map[string]int{"N": 2, "POINTS": 7, "LAZY": 1}, "start ok"),
					{Name: "integration", Pkg: app, Entry: "VerifAppIntegration", Params: map[string]int{"N": tierPick(tier, 3, 4), "R": 2}, MustCover: []string{"start ok", "component init fails", "lazy runner", "initialization of a lazy runner fails", "eager component that is only a factory post-processor"}, Opts: ExecOpts{Sched: "seq", PermuteRange: tier == "thorough", PermuteCoarse: true}},
				}
			},
			LevelText: "Bounded symbolic model checking of the real App.run/initConfiguration/initFactory/refresh/callRunners with a logging stub factory: for every multiset of up to N runners (three classes, unconstrained 64-bit Order), every choice of failing runner and every failing start-up phase: no runner before refresh finished, each at most once and in the ordering contract's sequence, exactly once if none fails, nothing after a failing runner, run returns an error exactly when something failed.",
			LevelNote: "Bound N runners (quick 3, thorough 4). That Refresh returning nil means every eager component is initialised is C05: its mini-container run is included here as run eager-components-initialised; the sorter shared with the loaders is exercised beyond the insertion-sort threshold by run shared-sorter-many-participants (loaders as participants). App.Run's option handling and initiate() are outside (whole-program).",
			Technique: techDefault, DesignRef: "DESIGN.md §3 C13"},
		&CheckDef{ID: "C14", Title: "Close",
			Runs: func(tier string) []RunSpec {
				return []RunSpec{
					{Name: "close", Pkg: app, Entry: "VerifC14", Params: map[string]int{"N": tierPick(tier, 5, 6)}, MustCover: []string{"several closers", "no closer"}, Opts: ExecOpts{Sched: "join", Races: true}},
					{Name: "many-closers", Pkg: app, Entry: "VerifC14Many", MustCover: []string{"many closers"}, Opts: ExecOpts{Sched: "seq", Races: true}},
					{Name: "closers-waiting-for-each-other", Pkg: app, Entry: "VerifC14Peers", MustCover: []string{"closers waiting for each other", "ordered closer waiting for a peer"}, Opts: ExecOpts{Sched: "join"}},
					{Name: "integration", Pkg: app, Entry: "VerifAppIntegration", Params: map[string]int{"N": 1, "R": 1}, MustCover: []string{"closer that wires the App", "Close called before start-up"}, Opts: ExecOpts{Sched: "seq"}},
				}
			},
			LevelText: "Bounded symbolic model checking of the real App.Close with engine goroutines, WaitGroup and channel models under the adversarial-join schedule (spawned goroutines run only when the parent blocks or returns, in every order; the parent resumes as early as possible): at the instant Close returns every closer ran exactly once and returned, for 0..N closers and every subset that fails.",
			LevelNote: "The many-closers run includes 40 closers of which every second one fails. Bound N closers (quick 5, thorough 6) under every join schedule, plus 16/17/18/33 closers under one fixed sequential schedule (batch and pool boundaries). Preemption inside a closer body is not explored (closer bodies share nothing but the WaitGroup). select and timers are modelled (a timer may fire at any moment; closers are marked as arbitrarily slow). Honest note: the quantified variables here (closer count, failing subset, schedule) are all explored by forking; the solver only decides feasibility of the few data-dependent branches.",
			Technique: techDefault + "; goroutine schedules as symbolic choices", DesignRef: "DESIGN.md §3 C14"},
		&CheckDef{ID: "C15", Title: "Configuration sources",
			Runs: func(tier string) []RunSpec {
				return []RunSpec{
					{Name: "options", Pkg: app, Entry: "VerifC15Options", Params: map[string]int{"K": tierPick(tier, 3, 4)}, MustCover: []string{"file added", "loader added", "ordered custom loader added"}},
					{Name: "load", Pkg: ioc + "/configure", Entry: "VerifC15Load", Params: map[string]int{"N": tierPick(tier, 3, 4)}, MustCover: []string{"several loaders", "loader failed", "two configurations built from one base list"}},
					{Name: "many-loaders", Pkg: ioc + "/configure", Entry: "VerifC15ManyLoaders", MustCover: []string{"many loaders"}},
					{Name: "conflicting-shapes", Pkg: ioc + "/configure", Entry: "VerifC15Conflicts", MustCover: []string{"later map replaces earlier scalar"}},
					{Name: "merge-real-viper", Pkg: ioc + "/configure", Entry: "VerifC15Merge", Params: map[string]int{"N": tierPick(tier, 2, 3)}, MustCover: []string{"merged", "overlapping documents merged", "subtree replaced at run time", "source added after the command-line loader", "command-line arguments loaded", "source added after a first read"}},
				}
			},
			LevelText: "Bounded symbolic model checking of the real app.SetConfig/AddConfigLoader/SetConfigLoader options and configure.AddLoaders/SetLoaders/Initialize/loadConfigure with a recording binder: for every sequence of up to K options and every set of up to N loaders (three classes, unconstrained Order, empty or non-empty payload, one failing): every document of every source that was added reaches the binder exactly once, priority-ordered (file) loaders first, unordered ones in the order added; a failing loader fails Initialize; and, with the real viper behind the real ViperBinder, the effective configuration of up to N overlapping YAML documents is their deep merge in loader order (last wins, nothing lost, nothing else contributes).",
			LevelNote: "The load run includes two configurations built from one base list (aliasing of the caller's slice); the merge run a source added after the command-line loader. Two layers. (1) Symbolic: 'the right documents reach the binder in the right order, none dropped' with a recording binder, unconstrained Order values and document bytes. (2) The run merge-real-viper drives the real configure.Initialize, loader.RawLoader and binder.ViperBinder from SSA with the REAL spf13/viper and YAML decoder linked into the engine and used natively on the concrete documents of each path: N (2, thorough 3) YAML documents assembled from symbolic choices of which overlapping top-level / nested / two-levels-down keys each supplies; asserted are last-wins, survival of singly supplied keys, absence of unsupplied keys (a process environment variable named like a key contributes nothing), the flattened Get(\"\") and Get after a runtime Set. The run conflicting-shapes feeds viper documents whose shapes conflict (map then scalar, flat dotted key then nested key): both are listed findings decided by the dependency. viper's behaviour on other document shapes (lists, anchors, type coercion), The real loader.ArgsLoader (go-kid/properties from SSA, yaml.Marshal natively) renders two --app.config arguments that take part in the merge. File I/O (os.ReadFile is a stub) stays outside.",
			Technique: techDefault, DesignRef: "DESIGN.md §3 C15"},
		&CheckDef{ID: "C16", Title: "Placeholders",
			Runs: func(tier string) []RunSpec {
				t := ExecOpts{Termination: true, MaxSteps: 1500000}
				rs := []RunSpec{
					{Name: "structured", Pkg: prc, Entry: "VerifC16Structured", Params: map[string]int{"L": 1, "D": 2, "V": tierPick(tier, 2, 3)}, MustCover: []string{"configured value used", "default used", "absent without default", "default containing a colon", "configured empty string", "one key quoted twice with different defaults"}, Opts: t},
					{Name: "nested", Pkg: prc, Entry: "VerifC16Nested", MustCover: []string{"nested key present", "nested key absent"}, Opts: t},
					{Name: "cyclic", Pkg: prc, Entry: "VerifC16Cyclic", Params: map[string]int{"TAGS": tierPick(tier, 2, 3)}, MustCover: []string{"circular reference reported as an error", "resolution terminates", "acyclic references (chains and diamonds)"}, Opts: t},
					rh("placeholder-in-wire-tag", "VerifC07", map[string]int{"K": 1, "PORDER": 0}, "name given through a placeholder"),
					{Name: "empty-key-real-binder", Pkg: prc, Entry: "VerifC16EmptyKey", MustCover: []string{"placeholder with an empty key"}},
					{Name: "total", Pkg: prc, Entry: "VerifC16Total", Params: map[string]int{"N": 5, "M": 1}, MustCover: []string{"resolution terminates"}, Opts: t},
					{Name: "fragments", Pkg: prc, Entry: "VerifC16Fragments", Params: map[string]int{"K": tierPick(tier, 4, 5)}, MustCover: []string{"resolution terminates", "growing text reported as an error"}, Opts: ExecOpts{Termination: true, MaxSteps: 6000000}},
				}
				if tier == "thorough" {
					rs = append(rs, RunSpec{Name: "total-6-ascii", Pkg: prc, Entry: "VerifC16Total", Params: map[string]int{"N": 6, "M": 1, "ASCII": 1}, MustCover: []string{"resolution terminates"}, Opts: t})
				}
				return rs
			},
			LevelText: "Bounded symbolic model checking of the real configQuoteAwarePostProcessors.PostProcessProperties, el.ReplaceAllContent/MatchString and strconv2.ParseAny/FormatAny: structured tags pre ${a} mid ${b[:d]} post with symbolic literal text, values and defaults (present / absent / empty map / empty list), a placeholder nested in a key, every byte string of length <= N as tag text, and configured values that refer to themselves or to each other (termination as an unwinding assertion).",
			LevelNote: "Also: values and tags built from the placeholder fragments '${y', '}', 'y' (4 pieces each; thorough 5) - complete placeholders arise only by splicing, resolution must end with a value or an error; the same key quoted twice in one tag with different defaults. Bounds: literal parts <=1 byte, values <=2 (3) bytes, defaults of letters and blanks <=2 bytes (number-like, boolean-like, quoted and bracketed defaults are re-formatted by ParseAny/FormatAny, see C17), arbitrary tags <=5 bytes over all byte values (thorough: additionally <=6 ASCII bytes; the case-folding model is byte-wise, so longer non-ASCII defaults are outside) with plain configured values. regexp is a Go-source model of the two placeholder patterns validated against the real regexp; non-string configured scalars and JSON-shaped values are outside.",
			Technique: techDefault, DesignRef: "DESIGN.md §3 C16"},
	)
	rhc := func(name, entry string, p map[string]int, cover ...string) RunSpec {
		r := rh(name, entry, p, cover...)
		r.Opts.PermutePerCall = true
		return r
	}
	defs = append(defs,
		&CheckDef{ID: "C06", Title: "Type-directed injection",
			Runs: func(tier string) []RunSpec {
				return []RunSpec{
					rh("types", "VerifC06", map[string]int{"K": tierPick(tier, 2, 3), "PORDER": 0}, "start ok", "start failed", "several candidates", "slice field pre-populated before start-up"),
					rh("re-attempt-after-transient-failure", "VerifC06", map[string]int{"K": 2, "PORDER": 0, "FLAKY": 1, "PRESET": 0}, "start ok", "creation re-attempted after a transient failure"),
					rh("candidates-nominated-twice", "VerifC06", map[string]int{"K": 2, "PORDER": 0, "DUPPROC": 1, "PRESET": 0}, "start ok", "candidates nominated by two processors"),
					rh("sealed-interface", "VerifC06Sealed", nil, "sealed interface"),
					rh("component-at-the-holders-address", "VerifC06FirstField", nil, "component at the holder's address"),
					rh("func-returns", "VerifC06Returns", map[string]int{"K": tierPick(tier, 2, 3)}, "both func points populated", "a component whose method of the requested name takes parameters"),
					rh("declining-user-processor", "VerifC06", map[string]int{"K": 1, "PORDER": 0, "PROC0": 1, "PRESET": 0}, "start ok", "start failed"),
					rh("same-named-types", "VerifC06SameName", map[string]int{"K": tierPick(tier, 2, 3)}, "two same-named interface types"),
				}
			},
			LevelText: "Bounded symbolic model checking of the real dependencyAware/dependencyFunctionAware/dependencyFurtherMatching processors (sequenced by the real SortOrderedComponents), container.Type/InterfaceType/FuncName, defaultDefinitionRegistry.GetMetas (enumeration order = symbolic permutation), the real tag scanner and populateComponent/Inject: for every population of up to K providers over a universe of four provider types and eight consumer field kinds (*T, I, []*T, []I, any, func-tag slice, and holders that are themselves candidates), the injected set equals an order-free specification written from static facts about the types.",
			LevelNote: "The func-returns run has a wildcard (returns=*) point, a component without the methods and a component whose methods of the requested names take parameters. Reduced claim: types are program text, so the type universe is fixed (4 provider types incl. a 'merely similar' pointer type, 8 field kinds); K<=2 (thorough 3); func tag with returns= for string results only. The reflect model is validated by native replay of sampled paths.",
			Technique: techDefault, DesignRef: "DESIGN.md §3 C06"},
		&CheckDef{ID: "C07", Title: "Injection by name",
			Runs: func(tier string) []RunSpec {
				return []RunSpec{
					{Name: "register", Pkg: fac, Entry: "VerifC07Register", Params: map[string]int{"K": 3, "L": tierPick(tier, 1, 2)}, MustCover: []string{"duplicate rejected", "same-named types of different packages", "stateless components sharing a name"}, Opts: ExecOpts{PermuteRange: true}},
					{Name: "register-log-levels", Pkg: fac, Entry: "VerifC07Register", Params: map[string]int{"K": 3, "L": 1, "LOGLEVEL": 1}, MustCover: []string{"duplicate rejected", "log level changed before registration"}, Opts: ExecOpts{RealSyslog: true}},
					rh("by-name", "VerifC07", map[string]int{"K": tierPick(tier, 2, 3)}, "named component found", "named component has an incompatible type", "optional point, no such component", "name given through a placeholder", "field holds a built-in default before start-up", "default type name of a provider requested"),
					rh("peers-of-the-holders-type", "VerifC07Peers", nil, "peer of the holder's own type"),
					rh("several-named-points", "VerifC07Fields", nil, "absent optional name next to other points"),
					rh("symbolic-names", "VerifC07Symbolic", nil, "first name requested", "second name requested", "no such name"),
					rh("declining-user-processor", "VerifC07", map[string]int{"K": 1, "PROC0": 1, "PORDER": 0}, "named component found"),
					mc("failing-candidate-behind-a-point", "VerifC09MC", map[string]int{"N": 2, "POINTS": 5, "FAULTS": 2}, "fault injected"),
				}
			},
			LevelText: "Bounded symbolic model checking of the by-name branch of dependencyAware, GetMetaByName, the real SingletonRegistry.RegisterSingleton/GetComponentName (names as symbolic bytes), furtherMatching and Inject: the field receives exactly the component registered under the requested name, an absent or incompatible name is an error for a required point and leaves an optional point untouched (never a panic), two distinct components are never both retrievable under one name.",
			LevelNote: "Bounds: <=3 providers, registration names <=1 (2) symbolic bytes, field kinds *T / interface / any; requested name ranges over provider names, the holder's own name and an absent name.",
			Technique: techDefault, DesignRef: "DESIGN.md §3 C07"},
		&CheckDef{ID: "C08", Title: "Qualifier and Primary narrowing",
			Runs: func(tier string) []RunSpec {
				return []RunSpec{
					rh("fields", "VerifC08", map[string]int{"K": 2, "SHAPES": 4, "NQ": tierPick(tier, 1, 2), "PORDER": 0}, "start ok", "start failed", "unique primary", "unique unnamed"),
					rh("func-tag-fields", "VerifC08", map[string]int{"K": 2, "ONLY": 4, "NQ": 1, "PORDER": 0}, "func-tag points", "unique primary"),
					rh("pointer-typed-point", "VerifC08", map[string]int{"K": 3, "ONLY": 6, "NQ": 1, "PORDER": 0}, "pointer-typed point", "unique unnamed"),
					rh("three-candidates", "VerifC08", map[string]int{"K": 3, "ONLY": 5, "NQ": 1, "PORDER": 0}, "unique primary", "unique unnamed"),
					rh("mixed-property-kinds", "VerifC08", map[string]int{"K": 2, "ONLY": 0, "NQ": 1, "PORDER": 0, "MIXED": 1}, "holder with a configuration value next to its injection points", "unique primary"),
					rh("optional-qualified-point", "VerifC09OptionalQualified", map[string]int{"K": 2}, "optional qualified point without a match"),
					rhc("candidates-sharing-an-address", "VerifC06", map[string]int{"K": 2, "PORDER": 1, "PRESET": 0}, "start ok", "several candidates"),
				}
			},
			LevelText: "Bounded symbolic model checking of the real furtherMatching processor (filterDependencies), TagArg.Has/Find and the by-type processors on holders with 2-3 wire fields (single, slice, an optional field without any candidate placed first): qualifiers of candidates and requested qualifier sets are symbolic bytes, primary/unnamed/named attributes and required bits are explored; each field is checked against an order-free per-field specification (only qualifying candidates, unique Primary wins, else unique unnamed, ties only inside the top rank).",
			LevelNote: "Run mixed-property-kinds: the holder also carries a configuration property, under permuted enumeration of the property groups. Bounds: 2 candidates over {*vPA, *vPC, *vPP}, four holder shapes, requested set <=1 (2) one-byte qualifiers. Qualifier arguments are set through Property.SetArg (the tag grammar itself is C19).",
			Technique: techDefault, DesignRef: "DESIGN.md §3 C08"},
		&CheckDef{ID: "C09", Title: "Clean failures",
			Runs: func(tier string) []RunSpec {
				return []RunSpec{
					mc("callback-faults-n2", "VerifC09MC", map[string]int{"N": 2, "POINTS": 5, "FAULTS": 2}, "fault injected"),
					mc("callback-faults-n3", "VerifC09MC", map[string]int{"N": 3, "POINTS": 1, "FAULTS": tierPick(tier, 1, 2)}, "fault injected"),
					mc("required-points", "VerifC02", map[string]int{"N": 2, "POINTS": 5}, "start failed"),
					rh("required-vs-optional-by-type", "VerifC06", map[string]int{"K": 1}, "start failed", "start ok"),
					rh("required-vs-optional-by-name", "VerifC07", map[string]int{"K": 2}, "optional point, no such component"),
					{Name: "run-phases-and-runners", Pkg: app, Entry: "VerifC13", Params: map[string]int{"N": 2, "FAULTS": 1}, MustCover: []string{"start-up fault", "runner failed"}},
					{Name: "loaders", Pkg: ioc + "/configure", Entry: "VerifC15Load", Params: map[string]int{"N": 3}, MustCover: []string{"loader failed"}},
					{Name: "integration", Pkg: app, Entry: "VerifAppIntegration", Params: map[string]int{"N": 2, "R": 2}, MustCover: []string{"component init fails", "initialization of a lazy runner fails"}, Opts: ExecOpts{Sched: "seq"}},
					{Name: "failing-definition-scanners", Pkg: fac, Entry: "VerifC20Scan", Params: map[string]int{"N": 3}, MustCover: []string{"several scanners fail at the same time"}, Opts: ExecOpts{Sched: "join", Races: true}},
					rh("declining-user-processor", "VerifC06", map[string]int{"K": 1, "PORDER": 0, "PROC0": 1, "PRESET": 0}, "start ok", "start failed"),
					{Name: "optional-validated-struct-pointer", Pkg: prc, Entry: "VerifC18ValidateStruct", MustCover: []string{"validated struct pointer left nil"}},
					{Name: "configuration-values", Pkg: prc, Entry: "VerifC09Values", MustCover: []string{"required value missing", "optional value missing", "value present"}},
					rh("optional-qualified-point", "VerifC09OptionalQualified", map[string]int{"K": 2}, "optional qualified point without a match", "required qualified point without a match"),
					{Name: "early-ordered-processor", Pkg: app, Entry: "VerifAppGraph", Params: map[string]int{"FIXED": 1, "EARLYPROC": 1}, MustCover: []string{"start ok"}, Opts: ExecOpts{Sched: "seq", Termination: true, MaxSteps: 3000000}},
					{Name: "value-sequence", Pkg: prc, Entry: "VerifC09ValueSequence", MustCover: []string{"a required value is missing after optional ones", "all required values present"}},
				}
			},
			LevelText: "Bounded symbolic model checking of three harness groups, faults injected one at a time and in pairs as solver-chosen bits: (1) every AfterPropertiesSet/Init/post-processor callback of the real factory fails on demand -> Refresh returns an error, never panics, ends within the step budget; (2) required vs optional wire points with present/absent candidates through the real resolution processors -> error iff a required point is unsatisfied, optional points stay at their zero value, no panic escapes; (3) the real App.run with failing configuration/prepare/refresh phases, loaders and runners -> run returns an error and no runner is invoked.",
			LevelNote: "Run optional-validated-struct-pointer: an optional validated struct pointer to which nothing is bound never fails start-up. The composition into a statement about App.Run (options; initiate; run) is an informal assume-guarantee argument (DESIGN.md §3 C09), not machine-checked. ",
			Technique: techDefault + "; fault bits as symbolic variables", DesignRef: "DESIGN.md §3 C09"},
		&CheckDef{ID: "C10", Title: "Order independence",
			Runs: func(tier string) []RunSpec {
				return []RunSpec{
					rhc("by-type", "VerifC06", map[string]int{"K": 2, "PORDER": 1, "PRESET": 0}, "start ok", "several candidates"),
					rhc("by-name", "VerifC07", map[string]int{"K": 2}, "named component found"),
					rh("qualified", "VerifC08", map[string]int{"K": 2, "SHAPES": tierPick(tier, 2, 4), "NQ": 1, "PORDER": 1}, "unique primary", "unique unnamed"),
					{Name: "registration", Pkg: fac, Entry: "VerifC07Register", Params: map[string]int{"K": 3, "L": 1}, MustCover: []string{"duplicate rejected"}, Opts: ExecOpts{PermuteRange: true}},
					rh("pointer-typed-point", "VerifC08", map[string]int{"K": 2, "ONLY": 6, "NQ": 1, "PORDER": 0}, "pointer-typed point", "unique unnamed"),
					rh("mixed-property-kinds", "VerifC08", map[string]int{"K": 2, "ONLY": 0, "NQ": 1, "PORDER": 0, "MIXED": 1}, "holder with a configuration value next to its injection points", "unique primary"),
					mc("creation-order", "VerifC10MC", map[string]int{"N": 2, "POINTS": tierPick(tier, 5, 7)}, "start ok", "start failed"),
					mc("creation-order-n3", "VerifC10MC", map[string]int{"N": 3, "POINTS": 1}, "start ok", "start failed"),
				}
			},
			LevelText: "Bounded symbolic model checking with the iteration order of sync.Map.Range and Go map range as symbolic permutations (fresh per call), the registration order of components and of the post-processors permuted: every outcome is compared with the order-free specifications of C06-C08 (success/failure, and the winner whenever the candidates are not genuinely tied; ties only inside the top-ranked set); a cyclic graph with a wrapped component is started twice in one path (canonical order vs permuted) and success and wiring must agree.",
			LevelNote: "Run mixed-property-kinds: the holder also carries a configuration property, under permuted enumeration of the property groups. Bounds as C06-C08 (<=3 registry entries, i.e. 3! orders per enumeration) and n<=2 (3) for creation order. Ties between post-processors of equal Order (sort.Slice is not stable) commute by reading (disjoint tags), not by the solver. Goroutine schedules of the scanning phase only influence insertion order, which is arbitrary here; data races are C20.",
			Technique: techDefault + "; iteration orders as symbolic permutations; two-run relational check", DesignRef: "DESIGN.md §3 C10"},
	)
	defs = append(defs,
		&CheckDef{ID: "C17", Title: "Configuration values reach fields unchanged (string -> string)",
			Runs: func(tier string) []RunSpec {
				return []RunSpec{
					{Name: "string-values", Pkg: prc, Entry: "VerifC17String", Params: map[string]int{"N": tierPick(tier, 4, 5)}, MustCover: []string{"bound"}},
					{Name: "scalar-family", Pkg: prc, Entry: "VerifC17Scalars", MustCover: []string{"scalars bound"}},
					{Name: "binder-after-set", Pkg: ioc + "/configure", Entry: "VerifC15Merge", Params: map[string]int{"N": 2}, MustCover: []string{"merged", "subtree replaced at run time"}},
					{Name: "nested-placeholder", Pkg: prc, Entry: "VerifC16Nested", MustCover: []string{"nested key present", "nested key absent"}},
				}
			},
			LevelText: "Bounded symbolic model checking of the real valueAware (value tag and prop shorthand), propertiesAware (prefix) and configQuote processors, Property.Unmarshall/reflectx.SetValue and strconv2.ParseAny/FormatAny: for every ASCII string of up to N bytes as the configured value, the string fields bound through value:\"${k}\", prop:\"k\", a value-tag literal and prefix:\"k\" all equal the configured string - outside five listed finding classes, each of which is reproduced natively on every run.",
			LevelNote: "Reduced claim: string -> string only. Integers, floats, booleans, lists, maps, nested structs and pointers are converted by viper/YAML, strconv float formatting and mapstructure's reflection, none of which is encoded (mapstructure is a contract stub: string -> string identity). Alphabet: ASCII without $ # { } [ ] ( ) and comma (placeholder/bracket syntax is C16/C19). N <= 4 (thorough 5) bytes. The additional run scalar-family executes the same glue on a fixed family of 11 concrete integers and 6 concrete floats of boundary magnitude (no symbolic arithmetic: decimal formatting and float parsing are computed natively); it is what exhibits the large-integer finding. The run binder-after-set executes the real ViperBinder (real viper natively) and checks that after a runtime Set of the same path, of an enclosing subtree or of a differently cased path a later Get answers from the current configuration, i.e. exactly what the store holds.",
			Technique: techDefault, DesignRef: "DESIGN.md §3 C17"},
		&CheckDef{ID: "C18", Title: "Expressions after substitution, validation after binding (glue)",
			Runs: func(tier string) []RunSpec {
				return []RunSpec{
					{Name: "stage-order", Pkg: prc, Entry: "VerifC18Order", Params: map[string]int{"EXTRA": tierPick(tier, 1, 2)}, MustCover: []string{"sorted"}},
					{Name: "expression-data-flow", Pkg: prc, Entry: "VerifC18Expr", MustCover: []string{"evaluated", "literal text before the expression", "placeholder nested in a placeholder inside the expression"}},
					{Name: "numeric-expression-family", Pkg: prc, Entry: "VerifC18ExprNumbers", MustCover: []string{"numeric expression evaluated", "boolean result"}},
					{Name: "validation-glue", Pkg: prc, Entry: "VerifC18Validate", Params: map[string]int{"N": tierPick(tier, 3, 4)}, MustCover: []string{"constraint violated", "constraint satisfied", "validated value bound by prefix", "undefined validation rule"}},
					{Name: "empty-expression-result", Pkg: prc, Entry: "VerifC18EmptyResult", MustCover: []string{"expression with an empty result"}},
					{Name: "pointer-validation", Pkg: prc, Entry: "VerifC18ValidatePointer", MustCover: []string{"pointer constraint violated", "pointer constraint satisfied"}},
					{Name: "several-validated-fields", Pkg: prc, Entry: "VerifC18SeveralValidated", MustCover: []string{"one of several validated fields violates its constraint"}},
					{Name: "same-tag-two-configurations", Pkg: prc, Entry: "VerifC18TwoConfigurations", MustCover: []string{"same tag under two configurations"}},
					{Name: "several-expressions", Pkg: prc, Entry: "VerifC18MultiExpr", MustCover: []string{"several expressions in one tag"}},
					{Name: "struct-validation", Pkg: prc, Entry: "VerifC18ValidateStruct", MustCover: []string{"struct constraint violated", "struct constraint satisfied", "only the required nested struct is empty", "validated struct pointer left nil"}},
				}
			},
			LevelText: "Bounded symbolic model checking of the glue in go-kid/ioc's own code: (a) the nine real processor objects plus extra user processors of symbolic class and 64-bit Order are sorted by the real SortOrderedComponents and configQuote < expression < {value, properties} < validate always holds; (b) real configQuote then expression then value processors on pre #{e1 ${k} e2} post: the text compiled is exactly the substituted text and the field receives pre+result+post; (c) the real validate processor fails exactly when the validator rejects the bound value, for fields with and without a validate argument, required and optional; (c') a bound struct (by value and through a pointer; required scalar, required nested struct, omitempty+min) fails start-up exactly when the real validator with the documented options rejects it.",
			LevelNote: "Run empty-expression-result: an expression whose whole result is the empty string (concrete operands, real expr-lang). Reduced claim: what expr-lang computes and which values go-playground/validator rejects are outside. On SYMBOLIC operands expr.Compile/Run is an uninterpreted injective function of the text and the validator's verdict an uninterpreted function of (value, constraint), except required/min/max/omitempty on ASCII strings, which are modelled; on CONCRETE operands the engine calls the real expr-lang and the real validator natively (they are linked into the engine), so the concrete expression family and concrete values are decided by the libraries themselves (concrete structs are rebuilt with reflect.StructOf carrying the declared validate tags, and the validator handle carries the options the code under test constructed it with). Natively the same harness uses the real libraries on both sides (sampled paths are replayed).",
			Technique: techDefault + "; third-party interpreters as uninterpreted functions", DesignRef: "DESIGN.md §3 C18"},
	)
	defs = append(defs,
		&CheckDef{ID: "C11", Title: "Tag scanning through embedded structs, frame condition",
			Runs: func(tier string) []RunSpec {
				return []RunSpec{{Name: "shapes", Pkg: fac, Entry: "VerifC11", Params: map[string]int{"SHAPES": 11}, MustCover: []string{"see-through embedding", "opaque embedding", "same type embedded twice", "same-named embedded types", "embedded struct declaring a configuration prefix"}, Opts: ExecOpts{PermuteRange: tier == "thorough"}},
					{Name: "custom-node-type", Pkg: prc, Entry: "VerifC11CustomNode", MustCover: []string{"custom processor sharing a built-in node type"}},
					{Name: "nil-config-pointer", Pkg: prc, Entry: "VerifC11NilConfigPointer", MustCover: []string{"nil configuration-properties pointers"}}}
			},
			LevelText: "Bounded symbolic model checking of NewMeta/scanFields/ForEachFieldV2, the real tag-scan processors (wire, func, value+prop, prefix, logger) plus a custom-tag processor, and the real populate path, on a fixed family of struct shapes (flat; the same tagged block embedded by value at depth 1, 2, 3; embedded struct with an unexported type name, also in the middle of the chain; embedded struct that itself carries a tag; embedded pointer-to-struct) with SYMBOLIC initial contents of every field and symbolic configured values: per shape the property list and every bound value equal those of the flat twin, the custom processor receives exactly its field with value and arguments, and unexported / untagged / foreign-tagged / unexported-but-tagged fields are bit-identical afterwards.",
			LevelNote: "Shape 12: an embedded by-value struct whose type declares Prefix(); every tagged block also has a field carrying both value and prop tags (one property per processor, the explicit value tag decides). Reduced claim: struct types are program text, not solver data - the quantification over 'all struct shapes' is NOT addressed, only the 8 shapes listed. The reflect model's CanSet/embedding rules are validated by native replay of the sampled paths on exactly these shapes.",
			Technique: techDefault, DesignRef: "DESIGN.md §3 C11"},
		&CheckDef{ID: "C20", Title: "Races and atomicity",
			Runs: func(tier string) []RunSpec {
				il := func(sw int) ExecOpts { return ExecOpts{Sched: "interleave", MaxSwitches: sw, Races: true} }
				return []RunSpec{
					{Name: "load-or-store-fn", Pkg: ioc + "/util/sync2", Entry: "VerifC20LoadOrStoreFn", MustCover: []string{"same key", "different keys"}, Opts: il(tierPick(tier, 3, 4))},
					{Name: "map-linearizable", Pkg: ioc + "/util/sync2", Entry: "VerifC20Linearizable", Params: map[string]int{"OPS": tierPick(tier, 1, 2), "KEYS": tierPick(tier, 2, 1)}, MustCover: []string{"history checked"}, Opts: il(2)},
					{Name: "range-with-writer", Pkg: ioc + "/util/sync2", Entry: "VerifC20Range", MustCover: []string{"range history checked", "Range concurrent with a Delete"}, Opts: il(tierPick(tier, 3, 5))},
					{Name: "set", Pkg: ioc + "/util/list", Entry: "VerifC20Set", Params: map[string]int{"OPS": tierPick(tier, 1, 2)}, MustCover: []string{"set history checked", "generic set"}, Opts: il(2)},
					{Name: "scan-phase-races", Pkg: fac, Entry: "VerifC20Scan", Params: map[string]int{"N": tierPick(tier, 3, 5), "WORK": 1}, MustCover: []string{"several scanners fail at the same time"}, Opts: ExecOpts{Sched: "join", Races: true, RealSyslog: true}},
					{Name: "scan-shared-tag-text", Pkg: fac, Entry: "VerifC20Scan", Params: map[string]int{"N": tierPick(tier, 1, 2), "SHARED": 1}, MustCover: []string{"components sharing a tag text scanned concurrently"}, Opts: ExecOpts{Sched: "join", Races: true, RealSyslog: true}},
					{Name: "close-races", Pkg: app, Entry: "VerifC14", Params: map[string]int{"N": 3}, MustCover: []string{"several closers"}, Opts: ExecOpts{Sched: "join", Races: true, RealSyslog: true}},
				}
			},
			LevelText: "Bounded symbolic model checking with engine goroutines: (a) sync2.Map.{Load,Store,LoadOrStore,LoadOrStoreFn,Delete} and ConcurrentSets.{Put,Exists,Remove} from two goroutines under every interleaving of their visible operations (bounded context switches): two load-or-stores never both win, every history is linearizable (checker written in the harness), and a Range running concurrently with a Delete/Store/LoadOrStore/LoadOrStoreFn hands out only mappings some caller stored, visits no key twice and misses no untouched key; (b) the real applyDefinitionRegistryPostProcessors (real tag scanner + scanners failing on solver-chosen components) and App.Close under the adversarial-join schedule with a happens-before race detector (vector clocks over spawn, WaitGroup, Mutex, sync.Map entries, atomics, channels): no two unordered conflicting accesses to one heap cell.",
			LevelNote: "The scanners of the race run file properties like user scanners and the caller reads the definitions after the phase returned (ranging over a map is a read for the detector); the set run also compares Length/ToArray with membership after the goroutines are done (natively the scenario is repeated 6000 times on fresh sets with the goroutines released together, so that a violating interleaving the engine predicts can reproduce; if it does not, the result is INCONCLUSIVE, never a violation). Bounds: 2 goroutines x 1 (2) operations over 2 (1) keys, <=2-4 preemptive context switches; <=3 (5) scanned components, at most 8 live goroutines. sync.Map, sync.Mutex, sync.WaitGroup and sync/atomic are trusted models (each method one atomic step); memory model = sequential consistency + happens-before bookkeeping; preemption inside user callbacks, the stdlib log.Logger (one atomic step), viper is outside; go-kid/ioc's own syslog package IS executed from SSA in the two race runs (its per-prefix logger instances are shared by the goroutines). Counterexamples are replayed natively (go test -race / a barrier inside the LoadOrStoreFn callback). Honest note: operations, keys and schedules are explored by forking (explicit-state exploration inside the symbolic executor); the SMT solver has almost nothing to decide in these runs.",
			Technique: techDefault + "; goroutine schedules as symbolic choices; happens-before race detection in the executor", DesignRef: "DESIGN.md §3 C20"},
	)
	// the integration graph run (real App.initiate + run) is cheap and serves several properties
	graphRun := func(tier string, coarse bool) RunSpec {
		r := RunSpec{Name: "integration-graph", Pkg: app, Entry: "VerifAppGraph", MustCover: []string{"start ok", "an Init fails", "required dependency missing", "a point wired by hand before start-up", "a by-name point holding a built-in default before start-up", "a processor answers nil before initialization"}, Opts: ExecOpts{Sched: "seq", Termination: true, MaxSteps: 3000000}}
		if coarse {
			r.Name = "integration-graph-orders"
			r.Params = map[string]int{"FIXED": 1}
			r.MustCover = []string{"start ok"}
			r.Opts.PermuteRange, r.Opts.PermuteCoarse = true, true
		}
		return r
	}
	valuesRun := RunSpec{Name: "integration-values", Pkg: app, Entry: "VerifAppValues", Params: map[string]int{"N": 3}, MustCover: []string{"values bound end to end", "constraint violated"}, Opts: ExecOpts{Sched: "seq", Termination: true, MaxSteps: 3000000}}
	for _, d := range defs {
		switch d.ID {
		case "C16", "C17", "C18":
			inner := d.Runs
			d.Runs = func(tier string) []RunSpec { return append(inner(tier), valuesRun) }
			d.LevelNote += " An additional integration run binds a symbolic string through value / prop / prefix / default / optional / expression / validate tags end to end through the real App.initiate+run (all nine real processors in their real order)."
		}
		switch d.ID {
		case "C01", "C02", "C05", "C06", "C09":
			inner := d.Runs
			d.Runs = func(tier string) []RunSpec { return append(inner(tier), graphRun(tier, false)) }
			d.LevelNote += " An additional integration run drives the real App.initiate+run (real registries, factory, nine processors, parallel scanning under a fixed sequential schedule) on a fixed component set with a cycle, a diamond, an interface slice, by-name, qualified and optional points; symbolic are which optional components exist, which Init fails and the registration rotation."
		case "C10":
			inner := d.Runs
			d.Runs = func(tier string) []RunSpec {
				oc := RunSpec{Name: "dependency-creation-order", Pkg: app, Entry: "VerifAppOrderCycle", MustCover: []string{"slice point", "wire and func points in one holder"}, Opts: ExecOpts{Sched: "seq", Termination: true, MaxSteps: 3000000, PermuteRange: true, PermuteCoarse: true}}
				return append(inner(tier), graphRun(tier, true), oc)
			}
		}
	}
	m := map[string]*CheckDef{}
	for _, d := range defs {
		m[d.ID] = d
	}
	return m
}
