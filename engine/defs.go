package main

// Registry of checks: which harness runs decide which property, with the
// bounds of each tier.  Only bounds that ran clean on the unchanged tree are
// registered here.

type CheckDef struct {
	ID          string
	Title       string
	Runs        func(tier string) []RunSpec
	LevelText   string
	LevelNote   string
	Technique   string
	DesignRef   string
	Assumptions []string
}

const ioc = "github.com/go-kid/ioc"

func tierPick(tier string, quick, thorough int) int {
	if tier == "thorough" {
		return thorough
	}
	return quick
}

func checkDefs() map[string]*CheckDef {
	defs := []*CheckDef{
		{
			ID: "C12", Title: "Ordering contract",
			Runs: func(tier string) []RunSpec {
				return []RunSpec{
					{Name: "sort", Pkg: ioc + "/util/framework_helper", Entry: "VerifC12Sort", Params: map[string]int{"N": tierPick(tier, 5, 6)}, MustCover: []string{"sorted"}},
				}
			},
			LevelText: "Bounded symbolic model checking of the real SortOrderedComponents/orderedComponentComparator and the real stdlib sort.Slice SSA: for every multiset of up to N participants of the three classes with unconstrained 64-bit Order() values and every input order, z3 shows the output is a permutation, classes are grouped priority<ordered<plain and Order never decreases inside the first two groups.",
			LevelNote: "Bound: N participants (quick 5, thorough 6); beyond 12 elements sort.Slice leaves insertion sort and the claim rests on its contract. Trusted: go/ssa, the engine's SSA semantics (validated by native replay of sampled paths), z3.",
			Technique: "bounded symbolic execution of go/ssa + z3 (QF_BV), native replay of counterexamples",
			DesignRef: "DESIGN.md §3 C12",
		},
		{
			ID: "C19", Title: "Tag argument grammar",
			Runs: func(tier string) []RunSpec {
				return []RunSpec{
					{Name: "total", Pkg: ioc + "/component_definition", Entry: "VerifC19Total", Params: map[string]int{"N": tierPick(tier, 5, 6)}},
					{Name: "required", Pkg: ioc + "/component_definition", Entry: "VerifC19Required", Params: map[string]int{"N": tierPick(tier, 4, 5)}, MustCover: []string{"parsed"}},
				}
			},
			LevelText: "Bounded symbolic model checking of TagArg.Parse/Set/Has/Find, NewProperty, IsRequired and the real strings2.Split/Index SSA over every byte string of length <= N: no path panics (every implicit bounds check is a solver obligation).",
			LevelNote: "Bound: all byte strings up to N bytes (quick 5, thorough 6) for totality; structured tags up to 12 bytes for faithfulness. strings.Index/Count/ToUpper are Go-source models validated against the real functions.",
			Technique: "bounded symbolic execution of go/ssa + z3 (QF_BV), native replay of counterexamples",
			DesignRef: "DESIGN.md §3 C19",
		},
	}
	m := map[string]*CheckDef{}
	for _, d := range defs {
		m[d.ID] = d
	}
	return m
}
