package main

import (
	"go/types"
	"sort"

	"golang.org/x/tools/go/ssa"
)

// ---------- goroutines ----------
//
// Every symbolic goroutine runs on its own host goroutine; exactly one of them
// holds the baton at any time, so the interpreter state needs no locking.
// Which goroutine runs next at a scheduling point is a fork (x.choose), i.e.
// every schedule within the bound is explored.
//
// Sched == "join":       a spawned goroutine does not run until some goroutine
//                        blocks (WaitGroup.Wait, Mutex.Lock) or the harness
//                        entry returns; a blocked goroutine resumes as soon as
//                        it can (adversarial for "waits for all").
// Sched == "interleave": additionally every visible operation (sync.Map,
//                        Mutex, WaitGroup, nd.Gate) is a preemption point,
//                        bounded by MaxSwitches.

type vclock map[int]int

func (v vclock) copy() vclock {
	n := make(vclock, len(v))
	for k, c := range v {
		n[k] = c
	}
	return n
}
func (v vclock) join(o vclock) {
	for k, c := range o {
		if c > v[k] {
			v[k] = c
		}
	}
}

type gor struct {
	id      int
	wake    chan struct{}
	done    bool
	started bool
	exited  bool
	fv      FuncV
	args    []Val
	waitOn  func() bool // non-nil while blocked; returns true while still blocked
	vc      vclock
	site    string
}

type wgState struct {
	n  int
	vc vclock
}
type muState struct {
	held bool
	vc   vclock
}

type killedPath struct{}

func (x *Exec) mainGor() *gor {
	if len(x.gors) == 0 {
		g := &gor{id: 0, wake: make(chan struct{}, 1), started: true, vc: vclock{0: 1}}
		x.gors = append(x.gors, g)
		x.cur = g
	}
	return x.gors[0]
}

func (x *Exec) spawn(fv FuncV, args []Val, site string) {
	if x.opts.Sched == "" {
		// a run that names no scheduling mode gets the adversarial-join discipline as soon as the
		// code under test starts a goroutine (on the unchanged tree such runs start none)
		x.opts.Sched = "join"
	}
	x.mainGor()
	me := x.cur
	g := &gor{id: len(x.gors), wake: make(chan struct{}, 1), fv: fv, args: args, site: site}
	g.vc = me.vc.copy()
	g.vc[g.id] = 1
	me.vc[me.id]++
	x.gors = append(x.gors, g)
	live := 0
	for _, o := range x.gors {
		if !o.done {
			live++
		}
	}
	if live > 8 && x.opts.Sched != "seq" {
		panic(unsupported{"more than 8 live goroutines"})
	}
	if len(x.gors) > 2000 {
		panic(unsupported{"more than 2000 goroutines"})
	}
}

func (x *Exec) runnable(except *gor) []*gor {
	var r []*gor
	for _, g := range x.gors {
		if g.done || g == except {
			continue
		}
		if g.waitOn != nil && g.waitOn() {
			continue
		}
		r = append(r, g)
	}
	sort.Slice(r, func(i, j int) bool { return r[i].id < r[j].id })
	return r
}

func (x *Exec) pick(cands []*gor) *gor {
	if len(cands) == 0 {
		return nil
	}
	if x.opts.Sched == "join" || x.opts.Sched == "seq" {
		// a blocked goroutine that can continue does so at once (parent first)
		for _, g := range cands {
			if g.started && g.waitOn != nil {
				return g
			}
		}
	}
	if len(cands) == 1 || x.opts.Sched == "seq" {
		return cands[0]
	}
	alts := make([]string, len(cands))
	for i := range alts {
		alts[i] = "true"
	}
	return cands[x.choose(alts, "sched")]
}

func (x *Exec) switchTo(g *gor) {
	me := x.cur
	if g == me {
		return
	}
	x.cur = g
	if !g.started {
		g.started = true
		go x.hostMain(g)
	} else {
		g.wake <- struct{}{}
	}
	if me.done {
		return
	}
	<-me.wake
	if x.dead {
		if me.id == 0 {
			f := x.fatal
			x.fatal = nil
			if f != nil {
				panic(f)
			}
		}
		panic(killedPath{})
	}
}

func (x *Exec) hostMain(g *gor) {
	defer func() {
		r := recover()
		g.exited = true
		if _, killed := r.(killedPath); killed || x.dead {
			x.hostDone <- struct{}{}
			return
		}
		if r != nil {
			// path-terminating event inside a spawned goroutine: hand it to main
			x.fatal = r
			x.dead = true
			x.hostDone <- struct{}{}
			x.gors[0].wake <- struct{}{}
			return
		}
		x.hostDone <- struct{}{}
	}()
	x.call(g.fv, g.args, "go "+g.site)
	g.done = true
	g.vc[g.id]++
	next := x.pick(x.runnable(g))
	if next == nil {
		panic(panicV{msg: "fatal error: all goroutines are asleep - deadlock!"})
	}
	x.switchTo(next)
}

// block parks the current goroutine until cond() is false.
func (x *Exec) block(cond func() bool, what string) {
	me := x.cur
	for cond() {
		me.waitOn = cond
		next := x.pick(x.runnable(me))
		if next == nil {
			me.waitOn = nil
			panic(panicV{msg: "fatal error: all goroutines are asleep - deadlock! (" + what + ")"})
		}
		x.switchTo(next)
	}
	me.waitOn = nil
}

// yield is a preemption point of the interleaving discipline.
func (x *Exec) yield() {
	if x.opts.Sched != "interleave" || len(x.gors) < 2 {
		return
	}
	if x.switches >= x.opts.MaxSwitches {
		return
	}
	me := x.cur
	others := x.runnable(me)
	if len(others) == 0 {
		return
	}
	alts := make([]string, len(others)+1)
	for i := range alts {
		alts[i] = "true"
	}
	k := x.choose(alts, "sched")
	if k == 0 {
		return
	}
	x.switches++
	x.switchTo(others[k-1])
}

// drain: the harness entry returned; let every remaining goroutine finish.
func (x *Exec) drain() {
	if len(x.gors) < 2 {
		return
	}
	x.block(func() bool {
		for _, g := range x.gors[1:] {
			if !g.done {
				return true
			}
		}
		return false
	}, "goroutines still blocked after the harness returned")
}

func (x *Exec) killAll() {
	x.dead = true
	for _, g := range x.gors {
		if g.id != 0 && g.started && !g.exited {
			g.wake <- struct{}{}
			<-x.hostDone
		}
	}
	// collect tokens of goroutines that exited by themselves
	for {
		select {
		case <-x.hostDone:
		default:
			return
		}
	}
}

// ---------- WaitGroup / Mutex models ----------

func (x *Exec) wg(c *Cell) *wgState {
	w, ok := x.wgs[c]
	if !ok {
		w = &wgState{vc: vclock{}}
		x.wgs[c] = w
	}
	return w
}

func (x *Exec) wgAdd(c *Cell, d int) {
	x.mainGor()
	x.yield()
	w := x.wg(c)
	w.n += d
	if w.n < 0 {
		panic(panicV{msg: "sync: negative WaitGroup counter"})
	}
	if d < 0 {
		w.vc.join(x.cur.vc)
		x.cur.vc[x.cur.id]++
	}
}

func (x *Exec) wgWait(c *Cell) {
	x.mainGor()
	x.yield()
	w := x.wg(c)
	x.block(func() bool { return w.n > 0 }, "WaitGroup.Wait")
	x.cur.vc.join(w.vc)
}

func (x *Exec) mu(c *Cell) *muState {
	m, ok := x.mus[c]
	if !ok {
		m = &muState{vc: vclock{}}
		x.mus[c] = m
	}
	return m
}

func (x *Exec) muLock(c *Cell) {
	x.mainGor()
	x.yield()
	m := x.mu(c)
	x.block(func() bool { return m.held }, "Mutex.Lock")
	m.held = true
	x.cur.vc.join(m.vc)
}

func (x *Exec) muUnlock(c *Cell) {
	x.mainGor()
	m := x.mu(c)
	if !m.held {
		panic(panicV{msg: "fatal error: sync: unlock of unlocked mutex"})
	}
	m.held = false
	m.vc.join(x.cur.vc)
	x.cur.vc[x.cur.id]++
	x.yield()
}

// ---------- happens-before race detection ----------

type raceCell struct {
	wGor, wClk int
	wWhere     string
	reads      map[int]int
	rWhere     map[int]string
}

func racePair(a, b string) string {
	if a > b {
		a, b = b, a
	}
	return "unsynchronised conflicting accesses at " + a + " and " + b
}

func (x *Exec) raceRead(c *Cell, where func() string) {
	g := x.cur
	if c.rc == nil {
		c.rc = &raceCell{wGor: -1}
	}
	rc := c.rc
	if rc.wGor >= 0 && rc.wGor != g.id && rc.wClk > g.vc[rc.wGor] {
		x.reportRace(racePair(where(), rc.wWhere))
	}
	if rc.reads == nil {
		rc.reads = map[int]int{}
		rc.rWhere = map[int]string{}
	}
	rc.reads[g.id] = g.vc[g.id]
	rc.rWhere[g.id] = where()
}

func (x *Exec) raceWrite(c *Cell, where func() string) {
	g := x.cur
	if c.rc == nil {
		c.rc = &raceCell{wGor: -1}
	}
	rc := c.rc
	if rc.wGor >= 0 && rc.wGor != g.id && rc.wClk > g.vc[rc.wGor] {
		x.reportRace(racePair(where(), rc.wWhere))
	}
	for rg, rclk := range rc.reads {
		if rg != g.id && rclk > g.vc[rg] {
			x.reportRace(racePair(where(), rc.rWhere[rg]))
		}
	}
	rc.wGor, rc.wClk, rc.wWhere = g.id, g.vc[g.id], where()
	rc.reads, rc.rWhere = nil, nil
}

func (x *Exec) reportRace(msg string) {
	for _, m := range x.raceLog {
		if m == msg {
			return
		}
	}
	x.raceLog = append(x.raceLog, msg)
	x.violation("race", msg, "")
}

// ---------- channels ----------

func (x *Exec) chanSend(c *ChanV, v Val, site string) {
	x.mainGor()
	x.yield()
	if c == nil {
		x.block(func() bool { return true }, "send on nil channel")
	}
	if c.closed {
		panic(panicV{msg: "send on closed channel at " + site})
	}
	me := x.cur
	if c.cap > 0 {
		x.block(func() bool { return len(c.buf) >= c.cap && !c.closed }, "chan send")
		if c.closed {
			panic(panicV{msg: "send on closed channel at " + site})
		}
		c.buf = append(c.buf, chanItem{v: v, vc: me.vc.copy()})
		me.vc[me.id]++
		return
	}
	// unbuffered: deposit and wait until a receiver has taken it
	c.buf = append(c.buf, chanItem{v: v, vc: me.vc.copy()})
	me.vc[me.id]++
	c.sent++
	my := c.sent
	x.block(func() bool { return c.taken < my && !c.closed }, "chan send (unbuffered)")
}

func (x *Exec) chanRecv(c *ChanV, commaOk bool, t types.Type, site string) Val {
	x.mainGor()
	x.yield()
	if c == nil {
		x.block(func() bool { return true }, "receive from nil channel")
	}
	if c != nil && c.timer {
		// a plain receive from a timer channel: the time passes
		if commaOk {
			return TupleV{x.zero(t.(*types.Tuple).At(0).Type()), cbool(true)}
		}
		return x.zero(t)
	}
	x.block(func() bool { return len(c.buf) == 0 && !c.closed }, "chan receive")
	var et types.Type
	if commaOk {
		et = t.(*types.Tuple).At(0).Type()
	} else {
		et = t
	}
	if len(c.buf) == 0 {
		x.cur.vc.join(c.cvc)
		if commaOk {
			return TupleV{x.zero(et), cbool(false)}
		}
		return x.zero(et)
	}
	it := c.buf[0]
	c.buf = c.buf[1:]
	c.taken++
	x.cur.vc.join(it.vc)
	if commaOk {
		return TupleV{it.v, cbool(true)}
	}
	return it.v
}

func (x *Exec) chanClose(c *ChanV, site string) {
	x.mainGor()
	if c == nil {
		panic(panicV{msg: "close of nil channel at " + site})
	}
	if c.closed {
		panic(panicV{msg: "close of closed channel at " + site})
	}
	c.closed = true
	c.cvc.join(x.cur.vc)
	x.cur.vc[x.cur.id]++
}

// selectStmt: a select over channel operations.  Among the ready cases the choice is a fork
// (Go chooses pseudo-randomly); a blocking select parks until some case is ready.
func (x *Exec) selectStmt(f *frame, in *ssa.Select) Val {
	x.mainGor()
	x.yield()
	type st struct {
		ch   *ChanV
		send bool
		val  Val
	}
	states := make([]st, len(in.States))
	for i, s := range in.States {
		c, _ := x.get(f, s.Chan).(*ChanV)
		states[i] = st{ch: c, send: s.Dir == types.SendOnly}
		if states[i].send {
			states[i].val = x.get(f, s.Send)
		}
	}
	ready := func() []int {
		var r []int
		for i, s := range states {
			if s.ch == nil {
				continue
			}
			if s.send {
				if s.ch.closed || (s.ch.cap > 0 && len(s.ch.buf) < s.ch.cap) {
					r = append(r, i)
				}
			} else if len(s.ch.buf) > 0 || s.ch.closed {
				r = append(r, i)
			}
		}
		return r
	}
	tt := in.Type().(*types.Tuple)
	res := make(TupleV, tt.Len())
	for i := 2; i < tt.Len(); i++ {
		res[i] = x.zero(tt.At(i).Type())
	}
	// timer cases: time is adversarial, so a timer may fire now (before anything else becomes
	// ready) or later than every other case; both are explored
	var timers []int
	for i, s := range states {
		if s.ch != nil && s.ch.timer && !s.send {
			timers = append(timers, i)
			states[i].ch = nil // not an ordinary channel case below
		}
	}
	fire := func(k int) Val {
		busy := false
		for _, g := range x.gors {
			if g != x.cur && !g.done {
				busy = true
			}
		}
		if busy {
			x.timerFired = true
		}
		res[0] = cbv(64, uint64(k))
		res[1] = cbool(true)
		return res
	}
	if len(timers) > 0 {
		alts := make([]string, len(timers)+1)
		for i := range alts {
			alts[i] = "true"
		}
		if c := x.choose(alts, "sched"); c < len(timers) {
			return fire(timers[c])
		}
		// no timer fires before another case is ready; if nothing else can ever become ready, the timer does fire
		me := x.cur
		for len(ready()) == 0 {
			me.waitOn = func() bool { return len(ready()) == 0 }
			next := x.pick(x.runnable(me))
			if next == nil {
				me.waitOn = nil
				return fire(timers[0])
			}
			x.switchTo(next)
		}
		me.waitOn = nil
	} else if in.Blocking {
		x.block(func() bool { return len(ready()) == 0 }, "select")
	}
	r := ready()
	if len(r) == 0 {
		res[0], res[1] = cbv(64, ^uint64(0)), cbool(false) // default case: index -1
		return res
	}
	k := r[0]
	if len(r) > 1 {
		alts := make([]string, len(r))
		for i := range alts {
			alts[i] = "true"
		}
		k = r[x.choose(alts, "sched")]
	}
	res[0] = cbv(64, uint64(k))
	s := states[k]
	if s.send {
		x.chanSend(s.ch, s.val, x.pos(in))
		res[1] = cbool(false)
		return res
	}
	// receive: the value goes to the result slot of the k-th receive state
	slot := 2
	for i := 0; i < k; i++ {
		if !states[i].send {
			slot++
		}
	}
	et := tt.At(slot).Type()
	v := x.chanRecv(s.ch, true, types.NewTuple(types.NewVar(0, nil, "", et), types.NewVar(0, nil, "", types.Typ[types.Bool])), x.pos(in)).(TupleV)
	res[slot] = v[0]
	res[1] = v[1]
	return res
}
