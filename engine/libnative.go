package main

import (
	"github.com/expr-lang/expr"
	"github.com/go-playground/validator/v10"
)

// The third-party interpreters themselves, used natively by the engine when the
// expression text / the validated value is fully concrete on a path (like strings.* on
// concrete arguments).  On symbolic operands they stay uninterpreted.

func nativeExpr(text string) (any, error) {
	prog, err := expr.Compile(text)
	if err != nil {
		return nil, err
	}
	return expr.Run(prog, nil)
}

func nativeCompile(text string) (any, error) { return expr.Compile(text) }

var nativeValidator = validator.New(validator.WithRequiredStructEnabled())

func nativeValidate(v any, tag string) (err error) {
	defer func() {
		if r := recover(); r != nil {
			err = errPanicInValidator{r}
		}
	}()
	return nativeValidator.Var(v, tag)
}

type errPanicInValidator struct{ r any }

func (e errPanicInValidator) Error() string { return "validator panicked" }

var nativeValidatorPlain = validator.New()

// nativeValidateStruct: the real validator on a natively rebuilt struct, configured like the handle
func nativeValidateStruct(v any, requiredStruct bool) (err error) {
	defer func() {
		if r := recover(); r != nil {
			err = errPanicInValidator{r}
		}
	}()
	if requiredStruct {
		return nativeValidator.Struct(v)
	}
	return nativeValidatorPlain.Struct(v)
}
