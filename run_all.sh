#!/bin/sh
# Runs every registered check (quick tier by default) and refreshes the evidence files.
cd "${VERIF_HOME:-/verif}" || exit 2
tier=${1:-quick}
rc=0
for id in $(python3 -c "import json;print(' '.join(c['property_id'] for c in json.load(open('MANIFEST.json'))['checks']))"); do
  bin/vcheck check $id --tier $tier | tail -1
  r=$?
  [ $r -ne 0 ] && rc=$r
done
exit $rc
