#!/usr/bin/env python3
"""Regenerates the table of registered runs in DESIGN.md (between the BOUNDS markers) from evidence/*.json."""
import json, glob, re
rows = []
for f in sorted(glob.glob('/verif/evidence/C*.json')):
    e = json.load(open(f))
    c = e['coverage']
    runs = []
    for r in c['runs']:
        b = ', '.join('%s=%s' % kv for kv in sorted((r.get('bounds') or {}).items()))
        m = r['mode']
        flags = []
        if m.get('permute_range'): flags.append('perm')
        if m.get('sched'): flags.append('sched=' + m['sched'])
        if m.get('races'): flags.append('races')
        runs.append('%s (`%s`%s%s): %d paths' % (r['run'], r['entry'].split('.')[-1], ' ' + b if b else '', ' [' + ','.join(flags) + ']' if flags else '', r['paths']))
    rows.append('| %s | %s | %d | %d | %.0f s |' % (e['property_id'], '<br>'.join(runs), c['states'], c['traces_validated_against_impl'], e['wall_s']))
table = '| id | runs (harness entry, bounds, mode): paths | paths total | native replays of sampled paths | wall |\n|---|---|---|---|---|\n' + '\n'.join(rows)
p = '/verif/DESIGN.md'
s = open(p).read()
s = re.sub(r'<!-- BOUNDS-BEGIN -->.*?<!-- BOUNDS-END -->', '<!-- BOUNDS-BEGIN -->\n' + table + '\n<!-- BOUNDS-END -->', s, flags=re.S)
open(p, 'w').write(s)
print('rows', len(rows))
